# Reference: ChaCha block function (RFC 7539 section 2.3 / Bernstein), HChaCha (draft-irtf-cfrg-xchacha), over llsym terms.
# Written from the documents; independent of the repository's structure. Running it on constant terms gives
# concrete values (the term layer folds constants), which is how the KATs validate it.
from llsym import terms as T

SIGMA = (0x61707865, 0x3320646e, 0x79622d32, 0x6b206574)

ROT = (16, 12, 8, 7)


def quarter(s, a, b, c, d, rot=ROT):
    s[a] = T.add(s[a], s[b]); s[d] = T.rotl(T.bxor(s[d], s[a]), rot[0])
    s[c] = T.add(s[c], s[d]); s[b] = T.rotl(T.bxor(s[b], s[c]), rot[1])
    s[a] = T.add(s[a], s[b]); s[d] = T.rotl(T.bxor(s[d], s[a]), rot[2])
    s[c] = T.add(s[c], s[d]); s[b] = T.rotl(T.bxor(s[b], s[c]), rot[3])


def rounds(words, drounds, rot=ROT):
    s = list(words)
    for _ in range(drounds):
        quarter(s, 0, 4, 8, 12, rot); quarter(s, 1, 5, 9, 13, rot); quarter(s, 2, 6, 10, 14, rot); quarter(s, 3, 7, 11, 15, rot)
        quarter(s, 0, 5, 10, 15, rot); quarter(s, 1, 6, 11, 12, rot); quarter(s, 2, 7, 8, 13, rot); quarter(s, 3, 4, 9, 14, rot)
    return s


def block_words(words, drounds, rot=ROT):
    """16 input words -> 16 output words (with feed-forward)"""
    s = rounds(words, drounds, rot)
    return [T.add(a, b) for a, b in zip(s, words)]


def le_words(v, n):
    """n 32-bit little-endian words of a byte string given as one LSB-first bit vector"""
    return [T.extract(v, 32 * i, 32) for i in range(n)]


def init_words(key, w12, w13, w14, w15):
    """key: 256-bit value (bytes LSB first); the four last words are given"""
    return [T.const(c, 32) for c in SIGMA] + le_words(key, 8) + [w12, w13, w14, w15]


def block_bytes(key, w12, w13, w14, w15, drounds, rot=ROT):
    """512-bit value: the 64 output bytes, LSB first (little-endian word serialisation)"""
    return T.concat(block_words(init_words(key, w12, w13, w14, w15), drounds, rot))


def block_djb(key, nonce64, ctr64, drounds, rot=ROT):
    """original ChaCha: 64-bit counter (words 12,13), 64-bit nonce (words 14,15)"""
    return block_bytes(key, T.extract(ctr64, 0, 32), T.extract(ctr64, 32, 32), T.extract(nonce64, 0, 32), T.extract(nonce64, 32, 32), drounds, rot)


def block_ietf(key, nonce96, ctr32, drounds=10, rot=ROT):
    """RFC 7539: 32-bit counter (word 12), 96-bit nonce (words 13..15)"""
    n = le_words(nonce96, 3)
    return block_bytes(key, ctr32, n[0], n[1], n[2], drounds, rot)


def hchacha(key, nonce128, drounds):
    """subkey = words 0..3 and 12..15 of the state after the rounds, no feed-forward; 256-bit value"""
    n = le_words(nonce128, 4)
    s = rounds(init_words(key, n[0], n[1], n[2], n[3]), drounds)
    return T.concat(s[0:4] + s[12:16])


def block_x(key, nonce192, ctr64, drounds, rot=ROT):
    """XChaCha: HChaCha subkey from the first 16 nonce bytes, then ChaCha with 64-bit counter and the last 8 nonce bytes"""
    sub = hchacha(key, T.extract(nonce192, 0, 128), drounds)
    return block_djb(sub, T.extract(nonce192, 128, 64), ctr64, drounds, rot)


def b2v(b):
    """python bytes -> constant term (LSB first)"""
    return T.const(int.from_bytes(b, 'little'), 8 * len(b))


def v2b(v):
    return T.cval(v).to_bytes(T.width(v) // 8, 'little')


def selftest():
    # RFC 7539 section 2.3.2 test vector
    key = bytes(range(32))
    nonce = bytes.fromhex('000000090000004a00000000')
    out = v2b(block_ietf(b2v(key), b2v(nonce), T.const(1, 32)))
    exp = bytes.fromhex('10f1e7e4d13b5915500fdd1fa32071c4c7d1f4c733c068030422aa9ac3d46c4e'
                        'd2826446079faa0914c2d705d98b02a2b5129cd1de164eb9cbd083e8a2503c4e')
    assert out == exp, out.hex()
    # draft-irtf-cfrg-xchacha section 2.2.1 HChaCha20 test vector
    key = bytes.fromhex('000102030405060708090a0b0c0d0e0f101112131415161718191a1b1c1d1e1f')
    n = bytes.fromhex('000000090000004a0000000031415927')
    sub = v2b(hchacha(b2v(key), b2v(n), 10))
    assert sub.hex() == '82413b4227b27bfed30e42508a877d73a0f9e4d58a74a853c12ec41326d3ecdc', sub.hex()
    return 2


if __name__ == '__main__':
    print('chacha spec KATs ok:', selftest())
