# Reference: Threefish-256/512/1024 (Skein 1.3 specification, section 3.3) and Skein simple hashing (UBI), over llsym terms.
# Constants are typed from the specification tables (Table 3: permutation pi, Table 4: rotation constants R_{d,j}).
from llsym import terms as T

C240 = 0x1BD11BDAA9FC1A22

ROT = {
    4: [[14, 16], [52, 57], [23, 40], [5, 37], [25, 33], [46, 12], [58, 22], [32, 32]],
    8: [[46, 36, 19, 37], [33, 27, 14, 42], [17, 49, 36, 39], [44, 9, 54, 56], [39, 30, 34, 24], [13, 50, 10, 17], [25, 29, 39, 43], [8, 35, 56, 22]],
    16: [[24, 13, 8, 47, 8, 17, 22, 37], [38, 19, 10, 55, 49, 18, 23, 52], [33, 4, 51, 13, 34, 41, 59, 17], [5, 20, 48, 41, 47, 28, 16, 25],
         [41, 9, 37, 31, 12, 47, 44, 30], [16, 34, 56, 51, 4, 53, 42, 41], [31, 44, 47, 46, 19, 42, 44, 25], [9, 48, 35, 52, 23, 31, 37, 20]],
}
PI = {
    4: [0, 3, 2, 1],
    8: [2, 1, 4, 7, 6, 5, 0, 3],
    16: [0, 9, 2, 13, 6, 11, 4, 15, 10, 7, 12, 3, 14, 5, 8, 1],
}
ROUNDS = {4: 72, 8: 72, 16: 80}


def words(v, n):
    return [T.extract(v, 64 * i, 64) for i in range(n)]


def subkeys(key, t0, t1, nw):
    k = words(key, nw)
    kn = T.const(C240, 64)
    for x in k:
        kn = T.bxor(kn, x)
    k = k + [kn]
    t = [t0, t1, T.bxor(t0, t1)]
    nr = ROUNDS[nw]
    sks = []
    for s in range(nr // 4 + 1):
        sk = [k[(s + i) % (nw + 1)] for i in range(nw)]
        sk[nw - 3] = T.add(sk[nw - 3], t[s % 3])
        sk[nw - 2] = T.add(sk[nw - 2], t[(s + 1) % 3])
        sk[nw - 1] = T.add(sk[nw - 1], T.const(s, 64))
        sks.append(sk)
    return sks


def encrypt(key, t0, t1, block, nw, rot=None, pi=None):
    """key, block: bit vectors of nw 64-bit little-endian words; returns the ciphertext bit vector"""
    rot = rot or ROT[nw]
    pi = pi or PI[nw]
    nr = ROUNDS[nw]
    sks = subkeys(key, t0, t1, nw)
    v = words(block, nw)
    for d in range(nr):
        if d % 4 == 0:
            v = [T.add(x, k) for x, k in zip(v, sks[d // 4])]
        f = list(v)
        for j in range(nw // 2):
            y0 = T.add(v[2 * j], v[2 * j + 1])
            y1 = T.bxor(T.rotl(v[2 * j + 1], rot[d % 8][j]), y0)
            f[2 * j], f[2 * j + 1] = y0, y1
        # word permutation: v_{d+1}[i] = f[pi(i)]
        v = [f[pi[i]] for i in range(nw)]
    v = [T.add(x, k) for x, k in zip(v, sks[nr // 4])]
    return T.concat(v)


def b2v(b):
    return T.const(int.from_bytes(b, 'little'), 8 * len(b))


def v2b(v):
    return T.cval(v).to_bytes(T.width(v) // 8, 'little')


# ------------------------------------------------------------------------------------------------- Skein
T1_FIRST = 1 << 62
T1_FINAL = 1 << 63
TYPE_CFG = 4 << 56
TYPE_MSG = 48 << 56
TYPE_OUT = 63 << 56


def ubi_block(g, block, t0, t1, nw):
    """one UBI step: G' = E(G; tweak; block) xor block"""
    return T.bxor(encrypt(g, t0, t1, block, nw), block)


def skein(msg, L, nbytes_out, nw, enc=None):
    """Skein-(64*nw)-(8*nbytes_out) simple hash of the L-byte message msg (bit vector, bytes LSB first)"""
    ubi = ubi_block if enc is None else enc
    bs = 8 * nw
    # configuration block
    cfg = T.concat([T.const(0x0000000133414853, 64), T.const(nbytes_out * 8, 64), T.const(0, 64 * (nw - 2))])
    g = ubi(T.const(0, 64 * nw), cfg, T.const(32, 64), T.const(T1_FIRST | T1_FINAL | TYPE_CFG, 64), nw)
    # message
    nblocks = max(1, (L + bs - 1) // bs)
    pos = 0
    for i in range(nblocks):
        n = min(bs, L - pos)
        blk = T.concat([T.extract(msg, 8 * pos, 8 * n), T.const(0, 8 * (bs - n))]) if n > 0 else T.const(0, 8 * bs)
        pos += n
        flags = TYPE_MSG | (T1_FIRST if i == 0 else 0) | (T1_FINAL if i == nblocks - 1 else 0)
        g = ubi(g, blk, T.const(pos, 64), T.const(flags, 64), nw)
    # output
    out = []
    nout = (nbytes_out + bs - 1) // bs
    for i in range(nout):
        ctr = T.concat([T.const(i, 64), T.const(0, 64 * (nw - 1))])
        out.append(ubi(g, ctr, T.const(8, 64), T.const(T1_FIRST | T1_FINAL | TYPE_OUT, 64), nw))
    return T.extract(T.concat(out), 0, 8 * nbytes_out)


def selftest():
    # Threefish test vectors from the Skein NIST submission (also shipped in the repository's unit tests)
    n = 0
    # Threefish-256, zero key/tweak/plaintext
    ct = v2b(encrypt(T.const(0, 256), T.const(0, 64), T.const(0, 64), T.const(0, 256), 4))
    assert ct.hex() == '84da2a1f8beaee947066ae3e3103f1ad536db1f4a1192495116b9f3ce6133fd8', ct.hex()
    n += 1
    key = bytes(range(0x10, 0x30))
    t0 = int.from_bytes(bytes(range(0, 8)), 'little')
    t1 = int.from_bytes(bytes(range(8, 16)), 'little')
    pt = bytes(range(0xff, 0xdf, -1))
    ct = v2b(encrypt(b2v(key), T.const(t0, 64), T.const(t1, 64), b2v(pt), 4))
    assert ct.hex() == 'e0d091ff0eea8fdfc98192e62ed80ad59d865d08588df476657056b5955e97df', ct.hex()
    n += 1
    ct = v2b(encrypt(T.const(0, 512), T.const(0, 64), T.const(0, 64), T.const(0, 512), 8))
    assert ct.hex() == 'b1a2bbc6ef6025bc40eb3822161f36e375d1bb0aee3186fbd19e47c5d479947b7bc2f8586e35f0cff7e7f03084b0b7b1f1ab3961a580a3e97eb41ea14a6d7bbe', ct.hex()
    n += 1
    ct = v2b(encrypt(T.const(0, 1024), T.const(0, 64), T.const(0, 64), T.const(0, 1024), 16))
    assert ct.hex().startswith('f05c3d0a3d05b304f785ddc7d1e036015c8aa76e2f217b06c6e1544c0bc1a90d'), ct.hex()
    n += 1
    # Skein-512-512 of the one-byte message 0xff (Skein 1.3 appendix C)
    h = v2b(skein(T.const(0xff, 8), 1, 64, 8))
    assert h.hex().startswith('71b7bce6fe6452227b9ced6014249e5bf9a9754c3ad618ccc4e0aae16b316cc8'), h.hex()
    n += 1
    return n


if __name__ == '__main__':
    print('threefish/skein spec KATs ok:', selftest())
