# Reference: Groestl-224/256/384/512 (SHA-3 finalist specification): byte-matrix P/Q permutations, compression
# h' = P(h xor m) xor Q(m) xor h, output transformation trunc(P(h) xor h), padding with the 64-bit block count.
# SubBytes uses the AES S-box through llsym.intrin.sbox8 (an uninterpreted function on symbolic bytes, the real table on
# constants), so equalities proved with it hold for ANY byte substitution, in particular the AES one.
from llsym import terms as T
from llsym.intrin import sbox8

SHIFT_P = {8: [0, 1, 2, 3, 4, 5, 6, 7], 16: [0, 1, 2, 3, 4, 5, 6, 11]}
SHIFT_Q = {8: [1, 3, 5, 7, 0, 2, 4, 6], 16: [1, 3, 5, 11, 0, 2, 4, 6]}
MIX = [2, 2, 3, 4, 5, 3, 5, 7]          # circulant B = circ(02, 02, 03, 04, 05, 03, 05, 07)
ROUNDS = {8: 10, 16: 14}
VARIANTS = {224: (512, 28), 256: (512, 32), 384: (1024, 48), 512: (1024, 64)}


def cb(v):
    return T.const(v & 0xff, 8)


def xtime(b):
    return T.bxor(T.shl(b, 1), T.band(T.concat([T.bit(b, 7)] * 8), cb(0x1b)))


def gmul(b, c):
    r = None
    p = b
    for k in range(3):
        if (c >> k) & 1:
            r = p if r is None else T.bxor(r, p)
        p = xtime(p)
    return r


def perm(state, q, ncols, rounds=None, shifts=None):
    """state: list of 8*ncols byte terms, column-major (byte i -> row i % 8, column i // 8)"""
    a = [[state[8 * c + r] for c in range(ncols)] for r in range(8)]
    shifts = shifts or (SHIFT_Q if q else SHIFT_P)[ncols]
    rounds = ROUNDS[ncols] if rounds is None else rounds
    for rd in range(rounds):
        for c in range(ncols):
            if q:
                for r in range(8):
                    a[r][c] = T.bxor(a[r][c], cb(0xff))
                a[7][c] = T.bxor(a[7][c], cb((c << 4) ^ rd))
            else:
                a[0][c] = T.bxor(a[0][c], cb((c << 4) ^ rd))
        a = [[sbox8(a[r][c]) for c in range(ncols)] for r in range(8)]
        a = [[a[r][(c + shifts[r]) % ncols] for c in range(ncols)] for r in range(8)]
        b = [[None] * ncols for _ in range(8)]
        for c in range(ncols):
            col2 = {}
            for r in range(8):
                acc = None
                for k in range(8):
                    t = gmul(a[(r + k) % 8][c], MIX[k])
                    acc = t if acc is None else T.bxor(acc, t)
                b[r][c] = acc
        a = b
    return [a[i % 8][i // 8] for i in range(8 * ncols)]


def bytes_of(v):
    return [T.extract(v, 8 * i, 8) for i in range(T.width(v) // 8)]


def compress(h, m, ncols):
    """h, m: byte lists"""
    hm = [T.bxor(x, y) for x, y in zip(h, m)]
    P = perm(hm, 0, ncols)
    Q = perm(m, 1, ncols)
    return [T.bxor(p, q, x) for p, q, x in zip(P, Q, h)]


def output(h, ncols, nbytes):
    P = perm(h, 0, ncols)
    o = [T.bxor(p, x) for p, x in zip(P, h)]
    return T.concat(o[len(o) - nbytes:])


def iv(variant):
    ell, nb = VARIANTS[variant]
    n = ell // 8
    b = [0] * n
    b[n - 2] = (variant >> 8) & 0xff
    b[n - 1] = variant & 0xff
    return [cb(x) for x in b]


def digest(msg, L, variant, h0=None, blocks_before=None, compress_fn=None, output_fn=None):
    """Groestl-<variant> of the L-byte message; h0 / blocks_before: start from an arbitrary chaining value (byte list)
    with that many blocks already absorbed (64-bit term)"""
    ell, nb = VARIANTS[variant]
    bs = ell // 8
    ncols = bs // 8
    h = iv(variant) if h0 is None else list(h0)
    cnt0 = T.const(0, 64) if blocks_before is None else blocks_before
    # padding: 0x80, zeros up to bs-8 mod bs, then the total number of blocks as a 64-bit big-endian integer
    rem = L % bs
    nblocks = L // bs + (1 if rem + 1 + 8 <= bs else 2)
    count = T.add(cnt0, T.const(nblocks, 64))
    padlen = nblocks * bs - L - 8
    pad = T.concat([T.const(0x80, 8), T.const(0, 8 * (padlen - 1)), T.bswap(count)])
    data = T.concat([msg, pad]) if L else pad
    for i in range(nblocks):
        m = bytes_of(T.extract(data, 8 * bs * i, 8 * bs))
        h = compress(h, m, ncols) if compress_fn is None else compress_fn(h, m)
    return output(h, ncols, nb) if output_fn is None else output_fn(h, nb)


def b2v(b):
    return T.const(int.from_bytes(b, 'little'), 8 * len(b))


def v2b(v):
    return T.cval(v).to_bytes(T.width(v) // 8, 'little')


def hx(variant, data):
    return v2b(digest(b2v(data), len(data), variant)).hex()


def selftest():
    assert hx(256, b'') == '1a52d11d550039be16107f9c58db9ebcc417f16f736adb2502567119f0083467', hx(256, b'')
    assert hx(256, b'abc') == 'f3c1bb19c048801326a7efbcf16e3d7887446249829c379e1840d1a3a1e7d4d2'
    assert hx(224, b'') == 'f2e180fb5947be964cd584e22e496242c6a329c577fc4ce8c36d34c3'
    assert hx(512, b'') == '6d3ad29d279110eef3adbd66de2a0345a77baede1557f5d099fce0c03d6dc2ba8e6d4a6633dfbd66053c20faa87d1a11f39a7fbe4a6c2f009801370308fc4ad8'
    assert hx(384, b'') == 'ac353c1095ace21439251007862d6c62f829ddbe6de4f78e68d310a9205a736d8b11d99bffe448f57a1cfa2934f044a5'
    return 5


if __name__ == '__main__':
    print('groestl spec KATs ok:', selftest())
