# Reference semantics of the ppv-lite86 vector vocabulary: the scalar meaning named by each operation, applied per word.
# A vector value is the bit vector of its little-endian storage bytes; words are consecutive little-endian words.
from llsym import terms as T

# type id -> (name, word bits, total bits, lane element bits for Vec2/Vec4 insert/extract)
TYPES = {
    0: ('u32x4', 32, 128, 32), 1: ('u64x2', 64, 128, 64), 2: ('u128x1', 128, 128, None),
    3: ('u32x4x2', 32, 256, 128), 4: ('u64x2x2', 64, 256, 128), 5: ('u64x4', 64, 256, 64), 6: ('u128x2', 128, 256, 128),
    7: ('u32x4x4', 32, 512, 128), 8: ('u64x2x4', 64, 512, 128), 9: ('u128x4', 128, 512, 128),
}
ROTS = {10: 7, 11: 8, 12: 11, 13: 12, 14: 16, 15: 20, 16: 24, 17: 25, 18: 32}
SWAPS = {30: 1, 31: 2, 32: 4, 33: 8, 34: 16, 35: 32, 36: 64}
OPNAMES = {0: 'add', 1: 'add_assign', 2: 'xor', 3: 'xor_assign', 4: 'and', 5: 'or', 6: 'not', 7: 'andnot', 8: 'bswap',
           20: 'shuffle1230', 21: 'shuffle2301', 22: 'shuffle3012', 23: 'shuffle_lane_words1230', 24: 'shuffle_lane_words2301',
           25: 'shuffle_lane_words3012', 40: 'extract', 41: 'insert', 42: 'to_lanes', 43: 'from_lanes', 44: 'to_scalars', 45: 'transpose4',
           50: 'read_le', 51: 'read_be', 52: 'write_le', 53: 'write_be', 54: 'unpack/into round trip',
           55: 'into 32-bit-word vector (From conversion)', 56: 'into 64-bit-word vector (From conversion)'}
for k, v in ROTS.items():
    OPNAMES[k] = 'rotate_each_word_right%d' % v
for k, v in SWAPS.items():
    OPNAMES[k] = 'swap%d' % v

# vocabulary required by the Machine trait bounds: type -> ops
BIT0 = [2, 3, 4, 5, 6, 7, 54]
ARITH = [0, 1, 8]
ROT32 = [10, 11, 12, 13, 14, 15, 16, 17]
BYTES = [50, 51, 52, 53]
# conversions between the word views of one machine (declared by the x86 machines in the where-clauses of their u128xN impls)
CONV = [55, 56]
X86_ONLY_OPS = set(CONV)
VOCAB = {
    0: BIT0 + ARITH + ROT32 + [20, 21, 22, 23, 24, 25] + BYTES + [40, 41, 42, 43],
    1: BIT0 + ARITH + ROT32 + [18] + [40, 41, 42, 43],
    2: BIT0 + ROT32 + [18] + list(SWAPS) + [42, 43] + CONV,
    3: BIT0 + ARITH + ROT32 + BYTES + [40, 41, 42, 43],
    4: BIT0 + ARITH + ROT32 + [18] + BYTES + [40, 41, 42, 43],
    5: BIT0 + ARITH + ROT32 + [18] + [20, 21, 22] + BYTES + [40, 41, 42, 43],
    6: BIT0 + ROT32 + [18] + list(SWAPS) + [40, 41, 42, 43] + CONV,
    7: BIT0 + ARITH + ROT32 + [23, 24, 25] + BYTES + [40, 41, 42, 43, 44, 45],
    8: BIT0 + ARITH + ROT32 + [18] + [40, 41, 42, 43],
    9: BIT0 + ROT32 + [18] + list(SWAPS) + [40, 41, 42, 43] + CONV,
}
C13_OPS = {40, 41, 42, 43, 44, 45, 50, 51, 52, 53, 54, 55, 56}     # data movement (C13); the rest is C12


def words(v, w):
    return [T.extract(v, w * i, w) for i in range(T.width(v) // w)]


def nelems(ty):
    name, w, n, eb = TYPES[ty]
    return n // eb if eb else 0


def expected(ty, op, a, b, c=None, d=None, i=0):
    """returns (expected output value, number of output bytes)"""
    name, w, n, eb = TYPES[ty]
    a = T.extract(a, 0, n)
    b = T.extract(b, 0, n)
    wa, wb = words(a, w), words(b, w)
    if op in (0, 1):
        r = T.concat([T.add(x, y) for x, y in zip(wa, wb)])
    elif op in (2, 3):
        r = T.bxor(a, b)
    elif op == 4:
        r = T.band(a, b)
    elif op == 5:
        r = T.bor(a, b)
    elif op == 6:
        r = T.bnot(a)
    elif op == 7:
        r = T.band(T.bnot(a), b)
    elif op == 8:
        r = T.concat([T.bswap(x) for x in wa])
    elif op in ROTS:
        r = T.concat([T.rotr(x, ROTS[op]) for x in wa])
    elif op in (20, 21, 22):
        # whole-vector word permutation of a 4-word vector
        p = {20: [3, 0, 1, 2], 21: [2, 3, 0, 1], 22: [1, 2, 3, 0]}[op]
        r = T.concat([wa[j] for j in p])
    elif op in (23, 24, 25):
        p = {23: [3, 0, 1, 2], 24: [2, 3, 0, 1], 25: [1, 2, 3, 0]}[op]
        out = []
        for l in range(n // 128):
            lw = words(T.extract(a, 128 * l, 128), 32)
            out += [lw[j] for j in p]
        r = T.concat(out)
    elif op in SWAPS:
        g = SWAPS[op]
        gs = words(a, g)
        out = []
        for k in range(0, len(gs), 2):
            out += [gs[k + 1], gs[k]]
        r = T.concat(out)
    elif op == 40:
        return T.extract(a, eb * i, eb), eb // 8
    elif op == 41:
        es = words(a, eb)
        es[i] = T.extract(b, 0, eb)
        r = T.concat(es)
    elif op in (42, 43, 44, 50, 52, 54, 55, 56):
        r = a
    elif op in (51, 53):
        r = T.concat([T.bswap(x) for x in wa])
    elif op == 45:
        c = T.extract(c, 0, n)
        d = T.extract(d, 0, n)
        rows = [words(x, 128) for x in (a, b, c, d)]
        r = T.concat([T.concat([rows[j][k] for j in range(4)]) for k in range(4)])
        return r, 4 * n // 8
    else:
        raise KeyError(op)
    return r, n // 8
