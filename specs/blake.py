# Reference: BLAKE-224/256/384/512 (SHA-3 final round document, unsalted), over llsym terms.
from llsym import terms as T

SIGMA = [
    [0, 1, 2, 3, 4, 5, 6, 7, 8, 9, 10, 11, 12, 13, 14, 15],
    [14, 10, 4, 8, 9, 15, 13, 6, 1, 12, 0, 2, 11, 7, 5, 3],
    [11, 8, 12, 0, 5, 2, 15, 13, 10, 14, 3, 6, 7, 1, 9, 4],
    [7, 9, 3, 1, 13, 12, 11, 14, 2, 6, 5, 10, 4, 0, 15, 8],
    [9, 0, 5, 7, 2, 4, 10, 15, 14, 1, 11, 12, 6, 8, 3, 13],
    [2, 12, 6, 10, 0, 11, 8, 3, 4, 13, 7, 5, 15, 14, 1, 9],
    [12, 5, 1, 15, 14, 13, 4, 10, 0, 7, 6, 3, 9, 2, 8, 11],
    [13, 11, 7, 14, 12, 1, 3, 9, 5, 0, 15, 4, 8, 6, 2, 10],
    [6, 15, 14, 9, 11, 3, 0, 8, 12, 2, 13, 7, 1, 4, 10, 5],
    [10, 2, 8, 4, 7, 6, 1, 5, 15, 11, 9, 14, 3, 12, 13, 0],
]
C32 = [0x243F6A88, 0x85A308D3, 0x13198A2E, 0x03707344, 0xA4093822, 0x299F31D0, 0x082EFA98, 0xEC4E6C89,
       0x452821E6, 0x38D01377, 0xBE5466CF, 0x34E90C6C, 0xC0AC29B7, 0xC97C50DD, 0x3F84D5B5, 0xB5470917]
C64 = [0x243F6A8885A308D3, 0x13198A2E03707344, 0xA4093822299F31D0, 0x082EFA98EC4E6C89, 0x452821E638D01377, 0xBE5466CF34E90C6C,
       0xC0AC29B7C97C50DD, 0x3F84D5B5B5470917, 0x9216D5D98979FB1B, 0xD1310BA698DFB5AC, 0x2FFD72DBD01ADFB7, 0xB8E1AFED6A267E96,
       0xBA7C9045F12C7F99, 0x24A19947B3916CF7, 0x0801F2E2858EFC16, 0x636920D871574E69]
IV = {
    256: [0x6A09E667, 0xBB67AE85, 0x3C6EF372, 0xA54FF53A, 0x510E527F, 0x9B05688C, 0x1F83D9AB, 0x5BE0CD19],
    224: [0xC1059ED8, 0x367CD507, 0x3070DD17, 0xF70E5939, 0xFFC00B31, 0x68581511, 0x64F98FA7, 0xBEFA4FA4],
    512: [0x6A09E667F3BCC908, 0xBB67AE8584CAA73B, 0x3C6EF372FE94F82B, 0xA54FF53A5F1D36F1, 0x510E527FADE682D1, 0x9B05688C2B3E6C1F,
          0x1F83D9ABFB41BD6B, 0x5BE0CD19137E2179],
    384: [0xCBBB9D5DC1059ED8, 0x629A292A367CD507, 0x9159015A3070DD17, 0x152FECD8F70E5939, 0x67332667FFC00B31, 0x8EB44A8768581511,
          0xDB0C2E0D64F98FA7, 0x47B5481DBEFA4FA4],
}
PARAMS = {  # variant: (word bits, rounds, rotations, block bytes, digest bytes, final marker bit)
    224: (32, 14, (16, 12, 8, 7), 64, 28, 0), 256: (32, 14, (16, 12, 8, 7), 64, 32, 1),
    384: (64, 16, (32, 25, 16, 11), 128, 48, 0), 512: (64, 16, (32, 25, 16, 11), 128, 64, 1),
}


def compress(h, m, t0, t1, w, rounds=None, rot=None):
    """h: 8 words, m: 16 words (already big-endian decoded), t0/t1: counter words; returns 8 new words"""
    C = C32 if w == 32 else C64
    rounds = rounds if rounds is not None else (14 if w == 32 else 16)
    rot = rot or ((16, 12, 8, 7) if w == 32 else (32, 25, 16, 11))
    cst = [T.const(c, w) for c in C]
    v = list(h) + cst[0:4] + [T.bxor(t0, cst[4]), T.bxor(t0, cst[5]), T.bxor(t1, cst[6]), T.bxor(t1, cst[7])]

    def G(r, i, a, b, c, d):
        s = SIGMA[r % 10]
        v[a] = T.add(T.add(v[a], v[b]), T.bxor(m[s[2 * i]], cst[s[2 * i + 1]]))
        v[d] = T.rotr(T.bxor(v[d], v[a]), rot[0])
        v[c] = T.add(v[c], v[d])
        v[b] = T.rotr(T.bxor(v[b], v[c]), rot[1])
        v[a] = T.add(T.add(v[a], v[b]), T.bxor(m[s[2 * i + 1]], cst[s[2 * i]]))
        v[d] = T.rotr(T.bxor(v[d], v[a]), rot[2])
        v[c] = T.add(v[c], v[d])
        v[b] = T.rotr(T.bxor(v[b], v[c]), rot[3])
    for r in range(rounds):
        G(r, 0, 0, 4, 8, 12); G(r, 1, 1, 5, 9, 13); G(r, 2, 2, 6, 10, 14); G(r, 3, 3, 7, 11, 15)
        G(r, 4, 0, 5, 10, 15); G(r, 5, 1, 6, 11, 12); G(r, 6, 2, 7, 8, 13); G(r, 7, 3, 4, 9, 14)
    return [T.bxor(h[i], v[i], v[i + 8]) for i in range(8)]


def be_words(block, w, n=16):
    """block: bit vector of bytes (LSB-first byte order); big-endian words"""
    wb = w // 8
    return [T.bswap(T.extract(block, 8 * wb * i, w)) for i in range(n)]


def pad_blocks(msg, L, variant, bitlen=None):
    """list of (block bit vector, message bits in this block counted so far or 0 for padding-only)"""
    w, rounds, rot, bs, dn, marker = PARAMS[variant]
    lenbytes = 2 * (w // 8)
    bitlen = T.const(8 * L, 8 * lenbytes) if bitlen is None else bitlen
    lenfield = T.bswap(bitlen)     # big-endian length as bytes
    full = L // bs
    blocks = []
    for i in range(full):
        blocks.append((T.extract(msg, 8 * bs * i, 8 * bs), 8 * bs * (i + 1)))
    rem = L - full * bs
    tail = T.extract(msg, 8 * bs * full, 8 * rem) if rem else ()
    # padding: 0x80, zeros, last byte before the length has its low bit = marker (0x01); when both fall into the same byte: 0x81
    if rem + 1 + lenbytes <= bs:
        npad = bs - lenbytes - rem
        if npad == 1:
            pad = T.const(0x80 | marker, 8)
        else:
            pad = T.concat([T.const(0x80, 8), T.const(0, 8 * (npad - 2)), T.const(marker, 8)])
        blocks.append((T.concat([tail, pad, lenfield]), 8 * L if rem else 0))
    else:
        npad1 = bs - rem
        blocks.append((T.concat([tail, T.const(0x80, 8), T.const(0, 8 * (npad1 - 1))]), 8 * L))
        blocks.append((T.concat([T.const(0, 8 * (bs - lenbytes - 1)), T.const(marker, 8), lenfield]), 0))
    return blocks


def digest(msg, L, variant, compress_fn=None, h0=None, t_offset=None):
    """BLAKE-<variant> of the L-byte message msg. compress_fn(h words, block bits, t0, t1) may replace the real compression
    (summaries); h0 / t_offset: start from an arbitrary chaining value and bit counter (inductive step)"""
    w, rounds, rot, bs, dn, marker = PARAMS[variant]
    h = [T.const(x, w) for x in IV[variant]] if h0 is None else list(h0)
    base = T.const(0, 2 * w) if t_offset is None else t_offset
    # the counter t = t0 + 2^w * t1 is kept as two w-bit words; adding the bits of a block carries from t0 into t1
    t0, t1 = T.extract(base, 0, w), T.extract(base, w, w)

    def advance(t0, t1, nbits):
        n0 = T.add(t0, T.const(nbits, w))
        carry = T.ult(n0, t0)
        return n0, T.add(t1, T.zext(carry, w))
    done = 0
    full_blocks = L // bs
    blocks = pad_blocks(msg, L, variant, T.const(0, 2 * w))
    # the length field of the padding holds the final counter value
    lt0, lt1 = t0, t1
    for i in range(full_blocks):
        lt0, lt1 = advance(lt0, lt1, 8 * bs)
    rem = L - full_blocks * bs
    if rem:
        lt0, lt1 = advance(lt0, lt1, 8 * rem)
    bitlen = T.concat([lt0, lt1])
    blocks = pad_blocks(msg, L, variant, bitlen)
    for blk, bits in blocks:
        if bits:
            t0, t1 = advance(t0, t1, bits - done)
            done = bits
            c0, c1 = t0, t1
        else:
            c0, c1 = T.const(0, w), T.const(0, w)
        if compress_fn is None:
            h = compress(h, be_words(blk, w), c0, c1, w)
        else:
            h = compress_fn(h, blk, c0, c1)
    out = T.concat([T.bswap(x) for x in h])
    return T.extract(out, 0, 8 * dn)


def b2v(b):
    return T.const(int.from_bytes(b, 'little'), 8 * len(b))


def v2b(v):
    return T.cval(v).to_bytes(T.width(v) // 8, 'little')


def h(variant, data):
    return v2b(digest(b2v(data), len(data), variant)).hex()


def selftest():
    assert h(256, b'') == '716f6e863f744b9ac22c97ec7b76ea5f5908bc5b2f67c61510bfc4751384ea7a', h(256, b'')
    assert h(256, b'\x00') == '0ce8d4ef4dd7cd8d62dfded9d4edb0a774ae6a41929a74da23109e8f11139c87'
    assert h(256, b'\x00' * 72) == 'd419bad32d504fb7d44d460c42c5593fe544fa4c135dec31e21bd9abdcc22d41'
    assert h(224, b'') == '7dc5313b1c04512a174bd6503b89607aecbee0903d40a8a569c94eed'
    assert h(512, b'') == 'a8cfbbd73726062df0c6864dda65defe58ef0cc52a5625090fa17601e1eecd1b628e94f396ae402a00acc9eab77b4d4c2e852aaaa25a636d80af3fc7913ef5b8'
    assert h(384, b'') == 'c6cbd89c926ab525c242e6621f2f5fa73aa4afe3d9e24aed727faaadd6af38b620bdb623dd2b4788b1c8086984af8706'
    assert h(512, b'\x00') == '97961587f6d970faba6d2478045de6d1fabd09b61ae50932054d52bc29d31be4ff9102b9f69e2bbdb83be13d4b9c06091e5fa0b48bd081b634058be0ec49beb3'
    return 7


if __name__ == '__main__':
    print('blake spec KATs ok:', selftest())
