#!/bin/bash
# offline setup: build the harness crate for the default configurations (warms the cargo caches) and self-test the references
set -e
cd "$(dirname "$0")"
export CARGO_NET_OFFLINE=true PYTHONPATH=/verif:/verif/checks PYTHONHASHSEED=0
python3-vt - <<'PY'
from llsym import build, entry
for c in ('release-std', 'release-nosimd', 'devchk-std'):
    lls, dt = build.build(c)
    print('built', c, len(lls), 'IR files in %.1fs' % dt)
entry.replay_bin('release'); entry.replay_bin('debug')
from specs import chacha
print('chacha reference KATs:', chacha.selftest())
PY
