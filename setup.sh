#!/bin/bash
# offline setup: build the harness crate for the configurations the quick checks use (warms the cargo caches),
# build the native replay binaries, and self-test the reference specifications against published vectors
set -e
cd "$(dirname "$0")"
export CARGO_NET_OFFLINE=true PYTHONPATH=/verif:/verif/checks PYTHONHASHSEED=0
python3-vt - <<'PY'
from llsym import build, entry
for c in ('release-std', 'release-nosimd', 'devchk-std', 'devchk-nosimd', 'release-nounroll', 'release-nostd-sse2'):
    lls, dt = build.build(c)
    print('built', c, len(lls), 'IR files in %.1fs' % dt)
entry.replay_bin('release'); entry.replay_bin('debug')
from specs import chacha, blake, threefish
print('chacha reference KATs:', chacha.selftest())
print('blake reference KATs:', blake.selftest())
print('threefish/skein reference KATs:', threefish.selftest())
PY
