//! Harness entries: thin `extern "C"` wrappers around the *public* APIs of the crates under test.
//! They are compiled to LLVM IR and executed symbolically by llsym, and linked into `vreplay` to
//! replay solver counterexamples natively.
#![allow(clippy::missing_safety_doc)]

pub mod rarg;
#[macro_use]
mod macros;

pub mod chacha;
pub mod vecops;
#[cfg(feature = "hashes")]
pub mod hashes;
#[cfg(feature = "hashes")]
pub mod tfish;

pub fn dispatch(name: &str, args: &[String]) -> Option<Vec<String>> {
    if let Some(r) = chacha::dispatch(name, args) {
        return Some(r);
    }
    if let Some(r) = chacha::api::dispatch(name, args) {
        return Some(r);
    }
    if let Some(r) = chacha::step20::dispatch(name, args) {
        return Some(r);
    }
    if let Some(r) = chacha::stepietf::dispatch(name, args) {
        return Some(r);
    }
    if let Some(r) = chacha::stepx8::dispatch(name, args) {
        return Some(r);
    }
    if let Some(r) = chacha::newstate::dispatch(name, args) {
        return Some(r);
    }
    if let Some(r) = vecops::dispatch(name, args) {
        return Some(r);
    }
    #[cfg(feature = "hashes")]
    if let Some(r) = hashes::dispatch(name, args).or_else(|| tfish::dispatch(name, args)) {
        return Some(r);
    }
    None
}
