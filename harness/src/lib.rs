//! Harness entries: thin `extern "C"` wrappers around the *public* APIs of the crates under test.
//! They are compiled to LLVM IR and executed symbolically by llsym, and linked into `vreplay` to
//! replay solver counterexamples natively.
#![allow(clippy::missing_safety_doc)]

pub mod rarg;
#[macro_use]
mod macros;

pub mod chacha;

pub fn dispatch(name: &str, args: &[String]) -> Option<Vec<String>> {
    if let Some(r) = chacha::dispatch(name, args) {
        return Some(r);
    }
    None
}
