//! Threefish (C09, C10)
use cipher::generic_array::GenericArray;
use cipher::{BlockDecrypt, BlockEncrypt};
use threefish_cipher::{Threefish1024, Threefish256, Threefish512};

macro_rules! tf {
    ($t:ty, $n:expr, $enc:ident, $dec:ident, $encdec:ident, $decenc:ident) => {
        entries! {
            fn $enc(key: *const [u8; $n], t0: u64, t1: u64, block: *mut [u8; $n]) {
                let c = <$t>::with_tweak(GenericArray::from_slice(&*key), t0, t1);
                c.encrypt_block(GenericArray::from_mut_slice(&mut *block));
            }
            fn $dec(key: *const [u8; $n], t0: u64, t1: u64, block: *mut [u8; $n]) {
                let c = <$t>::with_tweak(GenericArray::from_slice(&*key), t0, t1);
                c.decrypt_block(GenericArray::from_mut_slice(&mut *block));
            }
            fn $encdec(key: *const [u8; $n], t0: u64, t1: u64, block: *mut [u8; $n]) {
                let c = <$t>::with_tweak(GenericArray::from_slice(&*key), t0, t1);
                c.encrypt_block(GenericArray::from_mut_slice(&mut *block));
                c.decrypt_block(GenericArray::from_mut_slice(&mut *block));
            }
            fn $decenc(key: *const [u8; $n], t0: u64, t1: u64, block: *mut [u8; $n]) {
                let c = <$t>::with_tweak(GenericArray::from_slice(&*key), t0, t1);
                c.decrypt_block(GenericArray::from_mut_slice(&mut *block));
                c.encrypt_block(GenericArray::from_mut_slice(&mut *block));
            }
        }
    };
}
pub mod t256 {
    use super::*;
    tf!(Threefish256, 32, h_tf256_enc, h_tf256_dec, h_tf256_encdec, h_tf256_decenc);
}
pub mod t512 {
    use super::*;
    tf!(Threefish512, 64, h_tf512_enc, h_tf512_dec, h_tf512_encdec, h_tf512_decenc);
}
pub mod t1024 {
    use super::*;
    tf!(Threefish1024, 128, h_tf1024_enc, h_tf1024_dec, h_tf1024_encdec, h_tf1024_decenc);
}
pub fn dispatch(name: &str, args: &[String]) -> Option<Vec<String>> {
    t256::dispatch(name, args).or_else(|| t512::dispatch(name, args)).or_else(|| t1024::dispatch(name, args))
}
