use c2_chacha::guts::ChaCha;

unsafe fn mk(key: *const [u8; 32], nonce: *const [u8; 8], ctr: u64) -> ChaCha {
    let mut s = ChaCha::new(&*key, &(&*nonce)[..]);
    s.set_stream_param(0, ctr);
    s
}
unsafe fn params(s: &ChaCha, out: *mut [u8; 16]) {
    (&mut *out)[..8].copy_from_slice(&s.get_stream_param(0).to_le_bytes());
    (&mut *out)[8..].copy_from_slice(&s.get_stream_param(1).to_le_bytes());
}

entries! {
    // C14: four blocks at once
    fn h_c14_refill4(key: *const [u8; 32], nonce: *const [u8; 8], ctr: u64, drounds: u32, out: *mut [u8; 256], pout: *mut [u8; 16]) {
        let mut s = mk(key, nonce, ctr);
        s.refill4(drounds, &mut *out);
        params(&s, pout);
    }
    // C14: four single-block refills
    fn h_c14_refill1x4(key: *const [u8; 32], nonce: *const [u8; 8], ctr: u64, drounds: u32, out: *mut [u8; 256], pout: *mut [u8; 16]) {
        let mut s = mk(key, nonce, ctr);
        let o = &mut *out;
        for i in 0..4 {
            let blk: &mut [u8; 64] = (&mut o[64 * i..64 * i + 64]).try_into().unwrap();
            s.refill(drounds, blk);
        }
        params(&s, pout);
    }
    // C15: set a stream parameter on an arbitrary state, read both back, then produce one block
    fn h_c15_setget(key: *const [u8; 32], nonce: *const [u8; 8], ctr0: u64, param: u32, value: u64, drounds: u32, out: *mut [u8; 64], pout: *mut [u8; 16]) {
        let mut s = mk(key, nonce, ctr0);
        s.set_stream_param(param, value);
        params(&s, pout);
        s.refill(drounds, &mut *out);
    }
    // C15: history set -> refill4 -> get -> refill
    fn h_c15_set_refill4(key: *const [u8; 32], nonce: *const [u8; 8], ctr0: u64, param: u32, value: u64, drounds: u32, out4: *mut [u8; 256], out: *mut [u8; 64], pout: *mut [u8; 16]) {
        let mut s = mk(key, nonce, ctr0);
        s.set_stream_param(param, value);
        s.refill4(drounds, &mut *out4);
        params(&s, pout);
        s.refill(drounds, &mut *out);
    }
    // C15: stream equality predicates on two arbitrary states: bit0 = stream32_eq, bit1 = stream64_eq
    fn h_c15_eq(key1: *const [u8; 32], nonce1: *const [u8; 8], ctr1: u64, key2: *const [u8; 32], nonce2: *const [u8; 8], ctr2: u64) -> u32 {
        let a = mk(key1, nonce1, ctr1);
        let b = mk(key2, nonce2, ctr2);
        (a.stream32_eq(&b) as u32) | ((a.stream64_eq(&b) as u32) << 1)
    }
    // C14: one single-block refill
    fn h_c14_refill1(key: *const [u8; 32], nonce: *const [u8; 8], ctr: u64, drounds: u32, out: *mut [u8; 64], pout: *mut [u8; 16]) {
        let mut s = mk(key, nonce, ctr);
        s.refill(drounds, &mut *out);
        params(&s, pout);
    }
}

// ------------------------------------------------------------------------------------------------
// RustCrypto stream-cipher API (C01, C02, C11)
use cipher::{NewCipher, StreamCipher, StreamCipherSeek};
use c2_chacha::{ChaCha12, ChaCha20, ChaCha8, Ietf, XChaCha12, XChaCha20, XChaCha8};
use cipher::generic_array::GenericArray;

/// new -> try_seek(pos) -> try_apply_keystream(data[..len]); returns 0 ok, 1 seek error, 2 apply error
macro_rules! seek_apply {
    ($t:ty, $key:expr, $nonce:expr, $pos:expr, $data:expr, $len:expr) => {{
        let mut c = <$t>::new(GenericArray::from_slice(&*$key), GenericArray::from_slice(&*$nonce));
        if c.try_seek($pos).is_err() {
            1u32
        } else {
            let d = core::slice::from_raw_parts_mut($data, $len);
            if c.try_apply_keystream(d).is_err() { 2u32 } else { 0u32 }
        }
    }};
}

pub mod api {
    use super::*;
    entries! {
        fn h_c01_ietf(key: *const [u8; 32], nonce: *const [u8; 12], pos: u64, data: *mut u8, len: usize) -> u32 { seek_apply!(Ietf, key, nonce, pos, data, len) }
        fn h_c01_chacha8(key: *const [u8; 32], nonce: *const [u8; 8], pos: u64, data: *mut u8, len: usize) -> u32 { seek_apply!(ChaCha8, key, nonce, pos, data, len) }
        fn h_c01_chacha12(key: *const [u8; 32], nonce: *const [u8; 8], pos: u64, data: *mut u8, len: usize) -> u32 { seek_apply!(ChaCha12, key, nonce, pos, data, len) }
        fn h_c01_chacha20(key: *const [u8; 32], nonce: *const [u8; 8], pos: u64, data: *mut u8, len: usize) -> u32 { seek_apply!(ChaCha20, key, nonce, pos, data, len) }
        fn h_c01_xchacha8(key: *const [u8; 32], nonce: *const [u8; 24], pos: u64, data: *mut u8, len: usize) -> u32 { seek_apply!(XChaCha8, key, nonce, pos, data, len) }
        fn h_c01_xchacha12(key: *const [u8; 32], nonce: *const [u8; 24], pos: u64, data: *mut u8, len: usize) -> u32 { seek_apply!(XChaCha12, key, nonce, pos, data, len) }
        fn h_c01_xchacha20(key: *const [u8; 32], nonce: *const [u8; 24], pos: u64, data: *mut u8, len: usize) -> u32 { seek_apply!(XChaCha20, key, nonce, pos, data, len) }
    }
}

// ------------------------------------------------------------------------------------------------
// One step of the buffered stream-cipher state machine from an ARBITRARY state (C02, C11).
// `ChaChaAny.state: Buffer` and all `Buffer` fields are public, so an arbitrary buffered state is built
// through the public type aliases; the inner `ChaCha` is set through the public stream parameters.
// post layout: p0'[8] p1'[8] out'[64] have'[1] len'[8] fresh'[1] key_unchanged[1]
pub const POST: usize = 8 + 8 + 64 + 1 + 8 + 1 + 1;

macro_rules! load_state {
    ($t:ty, $nb:expr, $key:expr, $p0:expr, $p1:expr, $out_in:expr, $have:expr, $len:expr, $fresh:expr) => {{
        let nonce = [0u8; $nb];
        let mut c = <$t>::new(GenericArray::from_slice(&*$key), GenericArray::from_slice(&nonce));
        // for the X variants `new` derives a subkey; the step starts from an arbitrary key instead
        c.state.state = ChaCha::new(&*$key, &[0u8; 8]);
        c.state.state.set_stream_param(0, $p0);
        c.state.state.set_stream_param(1, $p1);
        c.state.out = *$out_in;
        c.state.have = $have as i8;
        c.state.len = $len;
        c.state.fresh = $fresh != 0;
        c
    }};
}
macro_rules! store_state {
    ($c:expr, $key:expr, $post:expr) => {{
        let p = &mut *$post;
        let p0 = $c.state.state.get_stream_param(0);
        let p1 = $c.state.state.get_stream_param(1);
        p[0..8].copy_from_slice(&p0.to_le_bytes());
        p[8..16].copy_from_slice(&p1.to_le_bytes());
        p[16..80].copy_from_slice(&$c.state.out);
        p[80] = $c.state.have as u8;
        p[81..89].copy_from_slice(&$c.state.len.to_le_bytes());
        p[89] = $c.state.fresh as u8;
        let mut e = ChaCha::new(&*$key, &[0u8; 8]);
        e.set_stream_param(0, p0);
        e.set_stream_param(1, p1);
        p[90] = ($c.state.state == e) as u8;
    }};
}

macro_rules! step_entries {
    ($modname:ident, $t:ty, $nb:expr, $apply:ident, $seek_u8:ident, $seek_u16:ident, $seek_u32:ident, $seek_u64:ident, $seek_u128:ident, $seek_usize:ident, $seek_i32:ident, $pos:ident) => {
        pub mod $modname {
            use super::*;
            entries! {
                fn $apply(key: *const [u8; 32], p0: u64, p1: u64, out_in: *const [u8; 64], have: u8, len: u64, fresh: u8, data: *mut u8, n: usize, post: *mut [u8; 91]) -> u32 {
                    let mut c = load_state!($t, $nb, key, p0, p1, out_in, have, len, fresh);
                    let r = c.try_apply_keystream(core::slice::from_raw_parts_mut(data, n));
                    store_state!(c, key, post);
                    if r.is_err() { 2 } else { 0 }
                }
                fn $seek_u8(key: *const [u8; 32], p0: u64, p1: u64, out_in: *const [u8; 64], have: u8, len: u64, fresh: u8, pos: u8, post: *mut [u8; 91]) -> u32 {
                    let mut c = load_state!($t, $nb, key, p0, p1, out_in, have, len, fresh);
                    let r = c.try_seek(pos);
                    store_state!(c, key, post);
                    if r.is_err() { 1 } else { 0 }
                }
                fn $seek_u16(key: *const [u8; 32], p0: u64, p1: u64, out_in: *const [u8; 64], have: u8, len: u64, fresh: u8, pos: u16, post: *mut [u8; 91]) -> u32 {
                    let mut c = load_state!($t, $nb, key, p0, p1, out_in, have, len, fresh);
                    let r = c.try_seek(pos);
                    store_state!(c, key, post);
                    if r.is_err() { 1 } else { 0 }
                }
                fn $seek_u32(key: *const [u8; 32], p0: u64, p1: u64, out_in: *const [u8; 64], have: u8, len: u64, fresh: u8, pos: u32, post: *mut [u8; 91]) -> u32 {
                    let mut c = load_state!($t, $nb, key, p0, p1, out_in, have, len, fresh);
                    let r = c.try_seek(pos);
                    store_state!(c, key, post);
                    if r.is_err() { 1 } else { 0 }
                }
                fn $seek_u64(key: *const [u8; 32], p0: u64, p1: u64, out_in: *const [u8; 64], have: u8, len: u64, fresh: u8, pos: u64, post: *mut [u8; 91]) -> u32 {
                    let mut c = load_state!($t, $nb, key, p0, p1, out_in, have, len, fresh);
                    let r = c.try_seek(pos);
                    store_state!(c, key, post);
                    if r.is_err() { 1 } else { 0 }
                }
                fn $seek_u128(key: *const [u8; 32], p0: u64, p1: u64, out_in: *const [u8; 64], have: u8, len: u64, fresh: u8, pos_lo: u64, pos_hi: u64, post: *mut [u8; 91]) -> u32 {
                    let mut c = load_state!($t, $nb, key, p0, p1, out_in, have, len, fresh);
                    let r = c.try_seek(((pos_hi as u128) << 64) | pos_lo as u128);
                    store_state!(c, key, post);
                    if r.is_err() { 1 } else { 0 }
                }
                fn $seek_usize(key: *const [u8; 32], p0: u64, p1: u64, out_in: *const [u8; 64], have: u8, len: u64, fresh: u8, pos: usize, post: *mut [u8; 91]) -> u32 {
                    let mut c = load_state!($t, $nb, key, p0, p1, out_in, have, len, fresh);
                    let r = c.try_seek(pos);
                    store_state!(c, key, post);
                    if r.is_err() { 1 } else { 0 }
                }
                fn $seek_i32(key: *const [u8; 32], p0: u64, p1: u64, out_in: *const [u8; 64], have: u8, len: u64, fresh: u8, pos: i32, post: *mut [u8; 91]) -> u32 {
                    let mut c = load_state!($t, $nb, key, p0, p1, out_in, have, len, fresh);
                    let r = c.try_seek(pos);
                    store_state!(c, key, post);
                    if r.is_err() { 1 } else { 0 }
                }
                fn $pos(key: *const [u8; 32], p0: u64, p1: u64, out_in: *const [u8; 64], have: u8, len: u64, fresh: u8, pos_out: *mut [u8; 8]) -> u32 {
                    let c = load_state!($t, $nb, key, p0, p1, out_in, have, len, fresh);
                    match c.try_current_pos::<u64>() {
                        Ok(p) => { *pos_out = p.to_le_bytes(); 0 }
                        Err(_) => 1,
                    }
                }
            }
        }
    };
}
step_entries!(step20, ChaCha20, 8, h_step_apply_chacha20, h_step_seek_u8_chacha20, h_step_seek_u16_chacha20, h_step_seek_u32_chacha20, h_step_seek_u64_chacha20, h_step_seek_u128_chacha20, h_step_seek_usize_chacha20, h_step_seek_i32_chacha20, h_step_pos_chacha20);
step_entries!(stepietf, Ietf, 12, h_step_apply_ietf, h_step_seek_u8_ietf, h_step_seek_u16_ietf, h_step_seek_u32_ietf, h_step_seek_u64_ietf, h_step_seek_u128_ietf, h_step_seek_usize_ietf, h_step_seek_i32_ietf, h_step_pos_ietf);
step_entries!(stepx8, XChaCha8, 24, h_step_apply_xchacha8, h_step_seek_u8_xchacha8, h_step_seek_u16_xchacha8, h_step_seek_u32_xchacha8, h_step_seek_u64_xchacha8, h_step_seek_u128_xchacha8, h_step_seek_usize_xchacha8, h_step_seek_i32_xchacha8, h_step_pos_xchacha8);

/// state right after the real constructor (C02 obligation 1: Inv(new) and P = 0)
macro_rules! new_entry {
    ($t:ty, $key:expr, $nonce:expr, $post:expr) => {{
        let c = <$t>::new(GenericArray::from_slice(&*$key), GenericArray::from_slice(&*$nonce));
        store_state!(c, $key, $post);
    }};
}
pub mod newstate {
    use super::*;
    entries! {
        fn h_new_chacha20(key: *const [u8; 32], nonce: *const [u8; 8], post: *mut [u8; 91]) { new_entry!(ChaCha20, key, nonce, post) }
        fn h_new_ietf(key: *const [u8; 32], nonce: *const [u8; 12], post: *mut [u8; 91]) { new_entry!(Ietf, key, nonce, post) }
        fn h_new_xchacha8(key: *const [u8; 32], nonce: *const [u8; 24], post: *mut [u8; 91]) { new_entry!(XChaCha8, key, nonce, post) }
    }
}
