use c2_chacha::guts::ChaCha;

unsafe fn mk(key: *const [u8; 32], nonce: *const [u8; 8], ctr: u64) -> ChaCha {
    let mut s = ChaCha::new(&*key, &(&*nonce)[..]);
    s.set_stream_param(0, ctr);
    s
}
unsafe fn params(s: &ChaCha, out: *mut [u8; 16]) {
    (&mut *out)[..8].copy_from_slice(&s.get_stream_param(0).to_le_bytes());
    (&mut *out)[8..].copy_from_slice(&s.get_stream_param(1).to_le_bytes());
}

entries! {
    // C14: four blocks at once
    fn h_c14_refill4(key: *const [u8; 32], nonce: *const [u8; 8], ctr: u64, drounds: u32, out: *mut [u8; 256], pout: *mut [u8; 16]) {
        let mut s = mk(key, nonce, ctr);
        s.refill4(drounds, &mut *out);
        params(&s, pout);
    }
    // C14: four single-block refills
    fn h_c14_refill1x4(key: *const [u8; 32], nonce: *const [u8; 8], ctr: u64, drounds: u32, out: *mut [u8; 256], pout: *mut [u8; 16]) {
        let mut s = mk(key, nonce, ctr);
        let o = &mut *out;
        for i in 0..4 {
            let blk: &mut [u8; 64] = (&mut o[64 * i..64 * i + 64]).try_into().unwrap();
            s.refill(drounds, blk);
        }
        params(&s, pout);
    }
    // C14: one single-block refill
    fn h_c14_refill1(key: *const [u8; 32], nonce: *const [u8; 8], ctr: u64, drounds: u32, out: *mut [u8; 64], pout: *mut [u8; 16]) {
        let mut s = mk(key, nonce, ctr);
        s.refill(drounds, &mut *out);
        params(&s, pout);
    }
}
