//! C12 / C13: every vector operation of the `Machine` vocabulary, per machine (backend).
//! One generic body `vecop<M>`; the (type, op) pair is a concrete argument, so the symbolic executor follows one
//! arm of the match per query. Values travel as little-endian bytes through the storage unions
//! (`From<[u32;4]>` / `new128` / `unpack` on the way in, `Into<storage>` / `split128` / `Into<[u32;4]>` on the way out).
use ppv_lite86::*;

#[inline(always)]
fn s128(b: &[u8]) -> vec128_storage {
    let w = |i: usize| u32::from_le_bytes([b[4 * i], b[4 * i + 1], b[4 * i + 2], b[4 * i + 3]]);
    vec128_storage::from([w(0), w(1), w(2), w(3)])
}
#[inline(always)]
fn o128(s: vec128_storage, out: &mut [u8]) {
    let w: [u32; 4] = s.into();
    for i in 0..4 {
        out[4 * i..4 * i + 4].copy_from_slice(&w[i].to_le_bytes());
    }
}
#[inline(always)]
fn ld128<M: Machine, V: Store<vec128_storage>>(m: M, b: &[u8]) -> V {
    m.unpack(s128(b))
}
#[inline(always)]
fn ld256<M: Machine, V: Store<vec256_storage>>(m: M, b: &[u8]) -> V {
    m.unpack(vec256_storage::new128([s128(&b[0..16]), s128(&b[16..32])]))
}
#[inline(always)]
fn ld512<M: Machine, V: Store<vec512_storage>>(m: M, b: &[u8]) -> V {
    m.unpack(vec512_storage::new128([s128(&b[0..16]), s128(&b[16..32]), s128(&b[32..48]), s128(&b[48..64])]))
}
#[inline(always)]
fn st128<V: Into<vec128_storage>>(v: V, out: &mut [u8]) {
    o128(v.into(), &mut out[0..16]);
}
#[inline(always)]
fn st256<V: Into<vec256_storage>>(v: V, out: &mut [u8]) {
    let s: vec256_storage = v.into();
    let [a, b] = s.split128();
    o128(a, &mut out[0..16]);
    o128(b, &mut out[16..32]);
}
#[inline(always)]
fn st512<V: Into<vec512_storage>>(v: V, out: &mut [u8]) {
    let s: vec512_storage = v.into();
    let [a, b, c, d] = s.split128();
    o128(a, &mut out[0..16]);
    o128(b, &mut out[16..32]);
    o128(c, &mut out[32..48]);
    o128(d, &mut out[48..64]);
}

// op codes
pub const ADD: u32 = 0;
pub const ADD_ASSIGN: u32 = 1;
pub const XOR: u32 = 2;
pub const XOR_ASSIGN: u32 = 3;
pub const AND: u32 = 4;
pub const OR: u32 = 5;
pub const NOT: u32 = 6;
pub const ANDNOT: u32 = 7;
pub const BSWAP: u32 = 8;
pub const ROT7: u32 = 10; // ..17: 7 8 11 12 16 20 24 25
pub const ROT32: u32 = 18;
pub const SHUF1230: u32 = 20;
pub const SHUF2301: u32 = 21;
pub const SHUF3012: u32 = 22;
pub const LSHUF1230: u32 = 23;
pub const LSHUF2301: u32 = 24;
pub const LSHUF3012: u32 = 25;
pub const SWAP1: u32 = 30; // ..36: 1 2 4 8 16 32 64
pub const EXTRACT: u32 = 40;
pub const INSERT: u32 = 41;
pub const TO_LANES: u32 = 42;
pub const FROM_LANES: u32 = 43;
pub const TO_SCALARS: u32 = 44;
pub const TRANSPOSE4: u32 = 45;
pub const READ_LE: u32 = 50;
pub const READ_BE: u32 = 51;
pub const WRITE_LE: u32 = 52;
pub const WRITE_BE: u32 = 53;
pub const IDENT: u32 = 54;
/// u128xN -> u32x4xN / u64x2xN through the `From` conversions the x86 machines declare between their vector types
pub const INTO_W32: u32 = 55;
pub const INTO_W64: u32 = 56;

#[inline(always)]
fn bitops0<V: BitOps0>(op: u32, a: V, b: V) -> Option<V> {
    Some(match op {
        XOR => a ^ b,
        XOR_ASSIGN => {
            let mut x = a;
            x ^= b;
            x
        }
        AND => a & b,
        OR => a | b,
        NOT => !a,
        ANDNOT => a.andnot(b),
        IDENT => a,
        _ => return None,
    })
}
#[inline(always)]
fn arith<V: ArithOps>(op: u32, a: V, b: V) -> Option<V> {
    Some(match op {
        ADD => a + b,
        ADD_ASSIGN => {
            let mut x = a;
            x += b;
            x
        }
        BSWAP => a.bswap(),
        _ => return None,
    })
}
#[inline(always)]
fn rot32<V: RotateEachWord32>(op: u32, a: V) -> Option<V> {
    Some(match op {
        10 => a.rotate_each_word_right7(),
        11 => a.rotate_each_word_right8(),
        12 => a.rotate_each_word_right11(),
        13 => a.rotate_each_word_right12(),
        14 => a.rotate_each_word_right16(),
        15 => a.rotate_each_word_right20(),
        16 => a.rotate_each_word_right24(),
        17 => a.rotate_each_word_right25(),
        _ => return None,
    })
}
#[inline(always)]
fn rot64<V: RotateEachWord64>(op: u32, a: V) -> Option<V> {
    if op == ROT32 {
        Some(a.rotate_each_word_right32())
    } else {
        None
    }
}
#[inline(always)]
fn words4<V: Words4>(op: u32, a: V) -> Option<V> {
    Some(match op {
        SHUF1230 => a.shuffle1230(),
        SHUF2301 => a.shuffle2301(),
        SHUF3012 => a.shuffle3012(),
        _ => return None,
    })
}
#[inline(always)]
fn lanewords4<V: LaneWords4>(op: u32, a: V) -> Option<V> {
    Some(match op {
        LSHUF1230 => a.shuffle_lane_words1230(),
        LSHUF2301 => a.shuffle_lane_words2301(),
        LSHUF3012 => a.shuffle_lane_words3012(),
        _ => return None,
    })
}
#[inline(always)]
fn swap64<V: Swap64>(op: u32, a: V) -> Option<V> {
    Some(match op {
        30 => a.swap1(),
        31 => a.swap2(),
        32 => a.swap4(),
        33 => a.swap8(),
        34 => a.swap16(),
        35 => a.swap32(),
        36 => a.swap64(),
        _ => return None,
    })
}
#[inline(always)]
fn bytes_io<M: Machine, V: StoreBytes>(m: M, op: u32, a: &[u8], n: usize, ld: impl Fn(&[u8]) -> V, st: impl Fn(V, &mut [u8]), out: &mut [u8]) -> bool {
    match op {
        READ_LE => st(m.read_le(&a[..n]), out),
        READ_BE => st(m.read_be(&a[..n]), out),
        WRITE_LE => ld(a).write_le(&mut out[..n]),
        WRITE_BE => ld(a).write_be(&mut out[..n]),
        _ => return false,
    }
    true
}

pub const T_U32X4: u32 = 0;
pub const T_U64X2: u32 = 1;
pub const T_U128X1: u32 = 2;
pub const T_U32X4X2: u32 = 3;
pub const T_U64X2X2: u32 = 4;
pub const T_U64X4: u32 = 5;
pub const T_U128X2: u32 = 6;
pub const T_U32X4X4: u32 = 7;
pub const T_U64X2X4: u32 = 8;
pub const T_U128X4: u32 = 9;

/// returns 0 if the (type, op) pair exists in the vocabulary, 1 otherwise.
/// a, b: operands (64 bytes each, only the first 16/32/64 used); c, d: extra operands for transpose4;
/// i: element index; out: 256 bytes (transpose4 writes four vectors)
#[inline(always)]
pub fn vecop<M: Machine>(m: M, ty: u32, op: u32, a: &[u8; 64], b: &[u8; 64], c: &[u8; 64], d: &[u8; 64], i: u32, out: &mut [u8; 256]) -> u32 {
    let u64le = |x: &[u8]| u64::from_le_bytes([x[0], x[1], x[2], x[3], x[4], x[5], x[6], x[7]]);
    let u32le = |x: &[u8]| u32::from_le_bytes([x[0], x[1], x[2], x[3]]);
    let u128le = |x: &[u8]| (u64le(&x[0..8]) as u128) | ((u64le(&x[8..16]) as u128) << 64);
    match ty {
        T_U32X4 => {
            let x: M::u32x4 = ld128(m, a);
            let y: M::u32x4 = ld128(m, b);
            if let Some(r) = bitops0(op, x, y).or_else(|| arith(op, x, y)).or_else(|| rot32(op, x)).or_else(|| words4(op, x)).or_else(|| lanewords4(op, x)) {
                st128(r, out);
                return 0;
            }
            if bytes_io(m, op, a, 16, |p| ld128::<M, M::u32x4>(m, p), |v, o| st128(v, o), out) {
                return 0;
            }
            match op {
                EXTRACT => out[0..4].copy_from_slice(&x.extract(i).to_le_bytes()),
                INSERT => st128(x.insert(u32le(&b[..]), i), out),
                TO_LANES => {
                    let l: [u32; 4] = x.to_lanes();
                    for k in 0..4 {
                        out[4 * k..4 * k + 4].copy_from_slice(&l[k].to_le_bytes());
                    }
                }
                FROM_LANES => {
                    let v: M::u32x4 = MultiLane::from_lanes([u32le(&a[0..4]), u32le(&a[4..8]), u32le(&a[8..12]), u32le(&a[12..16])]);
                    st128(v, out)
                }
                _ => return 1,
            }
            0
        }
        T_U64X2 => {
            let x: M::u64x2 = ld128(m, a);
            let y: M::u64x2 = ld128(m, b);
            if let Some(r) = bitops0(op, x, y).or_else(|| arith(op, x, y)).or_else(|| rot32(op, x)).or_else(|| rot64(op, x)) {
                st128(r, out);
                return 0;
            }
            match op {
                EXTRACT => out[0..8].copy_from_slice(&x.extract(i).to_le_bytes()),
                INSERT => st128(x.insert(u64le(&b[..]), i), out),
                TO_LANES => {
                    let l: [u64; 2] = x.to_lanes();
                    for k in 0..2 {
                        out[8 * k..8 * k + 8].copy_from_slice(&l[k].to_le_bytes());
                    }
                }
                FROM_LANES => {
                    let v: M::u64x2 = MultiLane::from_lanes([u64le(&a[0..8]), u64le(&a[8..16])]);
                    st128(v, out)
                }
                _ => return 1,
            }
            0
        }
        T_U128X1 => {
            let x: M::u128x1 = ld128(m, a);
            let y: M::u128x1 = ld128(m, b);
            if let Some(r) = bitops0(op, x, y).or_else(|| rot32(op, x)).or_else(|| rot64(op, x)).or_else(|| swap64(op, x)) {
                st128(r, out);
                return 0;
            }
            match op {
                TO_LANES => {
                    let l: [u128; 1] = x.to_lanes();
                    out[0..16].copy_from_slice(&l[0].to_le_bytes());
                }
                FROM_LANES => {
                    let v: M::u128x1 = MultiLane::from_lanes([u128le(&a[0..16])]);
                    st128(v, out)
                }
                _ => return 1,
            }
            0
        }
        T_U32X4X2 => {
            let x: M::u32x4x2 = ld256(m, a);
            let y: M::u32x4x2 = ld256(m, b);
            if let Some(r) = bitops0(op, x, y).or_else(|| arith(op, x, y)).or_else(|| rot32(op, x)) {
                st256(r, out);
                return 0;
            }
            if bytes_io(m, op, a, 32, |p| ld256::<M, M::u32x4x2>(m, p), |v, o| st256(v, o), out) {
                return 0;
            }
            match op {
                EXTRACT => st128(x.extract(i), out),
                INSERT => st256(x.insert(ld128::<M, M::u32x4>(m, b), i), out),
                TO_LANES => {
                    let l: [M::u32x4; 2] = x.to_lanes();
                    st128(l[0], &mut out[0..16]);
                    st128(l[1], &mut out[16..32]);
                }
                FROM_LANES => {
                    let v: M::u32x4x2 = MultiLane::from_lanes([ld128::<M, M::u32x4>(m, &a[0..16]), ld128::<M, M::u32x4>(m, &a[16..32])]);
                    st256(v, out)
                }
                _ => return 1,
            }
            0
        }
        T_U64X2X2 => {
            let x: M::u64x2x2 = ld256(m, a);
            let y: M::u64x2x2 = ld256(m, b);
            if let Some(r) = bitops0(op, x, y).or_else(|| arith(op, x, y)).or_else(|| rot32(op, x)).or_else(|| rot64(op, x)) {
                st256(r, out);
                return 0;
            }
            if bytes_io(m, op, a, 32, |p| ld256::<M, M::u64x2x2>(m, p), |v, o| st256(v, o), out) {
                return 0;
            }
            match op {
                EXTRACT => st128(x.extract(i), out),
                INSERT => st256(x.insert(ld128::<M, M::u64x2>(m, b), i), out),
                TO_LANES => {
                    let l: [M::u64x2; 2] = x.to_lanes();
                    st128(l[0], &mut out[0..16]);
                    st128(l[1], &mut out[16..32]);
                }
                FROM_LANES => {
                    let v: M::u64x2x2 = MultiLane::from_lanes([ld128::<M, M::u64x2>(m, &a[0..16]), ld128::<M, M::u64x2>(m, &a[16..32])]);
                    st256(v, out)
                }
                _ => return 1,
            }
            0
        }
        T_U64X4 => {
            let x: M::u64x4 = ld256(m, a);
            let y: M::u64x4 = ld256(m, b);
            if let Some(r) = bitops0(op, x, y).or_else(|| arith(op, x, y)).or_else(|| rot32(op, x)).or_else(|| rot64(op, x)).or_else(|| words4(op, x)) {
                st256(r, out);
                return 0;
            }
            if bytes_io(m, op, a, 32, |p| ld256::<M, M::u64x4>(m, p), |v, o| st256(v, o), out) {
                return 0;
            }
            match op {
                EXTRACT => out[0..8].copy_from_slice(&x.extract(i).to_le_bytes()),
                INSERT => st256(x.insert(u64le(&b[..]), i), out),
                TO_LANES => {
                    let l: [u64; 4] = x.to_lanes();
                    for k in 0..4 {
                        out[8 * k..8 * k + 8].copy_from_slice(&l[k].to_le_bytes());
                    }
                }
                FROM_LANES => {
                    let v: M::u64x4 = MultiLane::from_lanes([u64le(&a[0..8]), u64le(&a[8..16]), u64le(&a[16..24]), u64le(&a[24..32])]);
                    st256(v, out)
                }
                _ => return 1,
            }
            0
        }
        T_U128X2 => {
            let x: M::u128x2 = ld256(m, a);
            let y: M::u128x2 = ld256(m, b);
            if let Some(r) = bitops0(op, x, y).or_else(|| rot32(op, x)).or_else(|| rot64(op, x)).or_else(|| swap64(op, x)) {
                st256(r, out);
                return 0;
            }
            match op {
                EXTRACT => st128(x.extract(i), out),
                INSERT => st256(x.insert(ld128::<M, M::u128x1>(m, b), i), out),
                TO_LANES => {
                    let l: [M::u128x1; 2] = x.to_lanes();
                    st128(l[0], &mut out[0..16]);
                    st128(l[1], &mut out[16..32]);
                }
                FROM_LANES => {
                    let v: M::u128x2 = MultiLane::from_lanes([ld128::<M, M::u128x1>(m, &a[0..16]), ld128::<M, M::u128x1>(m, &a[16..32])]);
                    st256(v, out)
                }
                _ => return 1,
            }
            0
        }
        T_U32X4X4 => {
            let x: M::u32x4x4 = ld512(m, a);
            let y: M::u32x4x4 = ld512(m, b);
            if let Some(r) = bitops0(op, x, y).or_else(|| arith(op, x, y)).or_else(|| rot32(op, x)).or_else(|| lanewords4(op, x)) {
                st512(r, out);
                return 0;
            }
            if bytes_io(m, op, a, 64, |p| ld512::<M, M::u32x4x4>(m, p), |v, o| st512(v, o), out) {
                return 0;
            }
            match op {
                EXTRACT => st128(x.extract(i), out),
                INSERT => st512(x.insert(ld128::<M, M::u32x4>(m, b), i), out),
                TO_LANES => {
                    let l: [M::u32x4; 4] = x.to_lanes();
                    for k in 0..4 {
                        st128(l[k], &mut out[16 * k..16 * k + 16]);
                    }
                }
                FROM_LANES => {
                    let v: M::u32x4x4 = MultiLane::from_lanes([
                        ld128::<M, M::u32x4>(m, &a[0..16]),
                        ld128::<M, M::u32x4>(m, &a[16..32]),
                        ld128::<M, M::u32x4>(m, &a[32..48]),
                        ld128::<M, M::u32x4>(m, &a[48..64]),
                    ]);
                    st512(v, out)
                }
                TO_SCALARS => {
                    let s: [u32; 16] = x.to_scalars();
                    for k in 0..16 {
                        out[4 * k..4 * k + 4].copy_from_slice(&s[k].to_le_bytes());
                    }
                }
                TRANSPOSE4 => {
                    let z: M::u32x4x4 = ld512(m, c);
                    let w: M::u32x4x4 = ld512(m, d);
                    let (r0, r1, r2, r3) = M::u32x4x4::transpose4(x, y, z, w);
                    st512(r0, &mut out[0..64]);
                    st512(r1, &mut out[64..128]);
                    st512(r2, &mut out[128..192]);
                    st512(r3, &mut out[192..256]);
                }
                _ => return 1,
            }
            0
        }
        T_U64X2X4 => {
            let x: M::u64x2x4 = ld512(m, a);
            let y: M::u64x2x4 = ld512(m, b);
            if let Some(r) = bitops0(op, x, y).or_else(|| arith(op, x, y)).or_else(|| rot32(op, x)).or_else(|| rot64(op, x)) {
                st512(r, out);
                return 0;
            }
            match op {
                EXTRACT => st128(x.extract(i), out),
                INSERT => st512(x.insert(ld128::<M, M::u64x2>(m, b), i), out),
                TO_LANES => {
                    let l: [M::u64x2; 4] = x.to_lanes();
                    for k in 0..4 {
                        st128(l[k], &mut out[16 * k..16 * k + 16]);
                    }
                }
                FROM_LANES => {
                    let v: M::u64x2x4 = MultiLane::from_lanes([
                        ld128::<M, M::u64x2>(m, &a[0..16]),
                        ld128::<M, M::u64x2>(m, &a[16..32]),
                        ld128::<M, M::u64x2>(m, &a[32..48]),
                        ld128::<M, M::u64x2>(m, &a[48..64]),
                    ]);
                    st512(v, out)
                }
                _ => return 1,
            }
            0
        }
        T_U128X4 => {
            let x: M::u128x4 = ld512(m, a);
            let y: M::u128x4 = ld512(m, b);
            if let Some(r) = bitops0(op, x, y).or_else(|| rot32(op, x)).or_else(|| rot64(op, x)).or_else(|| swap64(op, x)) {
                st512(r, out);
                return 0;
            }
            match op {
                EXTRACT => st128(x.extract(i), out),
                INSERT => st512(x.insert(ld128::<M, M::u128x1>(m, b), i), out),
                TO_LANES => {
                    let l: [M::u128x1; 4] = x.to_lanes();
                    for k in 0..4 {
                        st128(l[k], &mut out[16 * k..16 * k + 16]);
                    }
                }
                FROM_LANES => {
                    let v: M::u128x4 = MultiLane::from_lanes([
                        ld128::<M, M::u128x1>(m, &a[0..16]),
                        ld128::<M, M::u128x1>(m, &a[16..32]),
                        ld128::<M, M::u128x1>(m, &a[32..48]),
                        ld128::<M, M::u128x1>(m, &a[48..64]),
                    ]);
                    st512(v, out)
                }
                _ => return 1,
            }
            0
        }
        _ => 1,
    }
}

/// C16: byte I/O through a caller slice of ARBITRARY length: read_le / read_be from p[..len] (result to `out`), write_le / write_be
/// of the vector loaded from `a` into p[..len]. A length other than the vector size must be rejected (panic), never accessed.
#[inline(always)]
pub unsafe fn vecio<M: Machine>(m: M, ty: u32, op: u32, a: &[u8; 64], p: *mut u8, len: usize, out: &mut [u8; 64]) -> u32 {
    let s = core::slice::from_raw_parts_mut(p, len);
    macro_rules! io {
        ($V:ty, $ld:ident, $st:ident) => {
            match op {
                READ_LE => $st(m.read_le::<$V>(s), &mut out[..]),
                READ_BE => $st(m.read_be::<$V>(s), &mut out[..]),
                WRITE_LE => $ld::<M, $V>(m, &a[..]).write_le(s),
                WRITE_BE => $ld::<M, $V>(m, &a[..]).write_be(s),
                _ => return 1,
            }
        };
    }
    match ty {
        T_U32X4 => io!(M::u32x4, ld128, st128),
        T_U32X4X2 => io!(M::u32x4x2, ld256, st256),
        T_U64X2X2 => io!(M::u64x2x2, ld256, st256),
        T_U64X4 => io!(M::u64x4, ld256, st256),
        T_U32X4X4 => io!(M::u32x4x4, ld512, st512),
        _ => return 1,
    }
    0
}

#[cfg(not(feature = "no_simd"))]
mod x86 {
    use super::*;
    use ppv_lite86::x86_64::{AVX, AVX2, SSE2, SSE41, SSSE3};

    /// conversions between the word views of one machine (bit-identical reinterpretation): u128x1/x2/x4 -> u32x4(x2,x4), u64x2(x2,x4)
    #[inline(always)]
    fn conv<M: Machine>(m: M, ty: u32, op: u32, a: &[u8; 64], out: &mut [u8; 256]) -> Option<u32>
    where
        M::u128x1: Into<M::u32x4> + Into<M::u64x2>,
        M::u128x2: Into<M::u32x4x2> + Into<M::u64x2x2>,
        M::u128x4: Into<M::u32x4x4> + Into<M::u64x2x4>,
    {
        match (ty, op) {
            (T_U128X1, INTO_W32) => { let x: M::u128x1 = ld128(m, a); let y: M::u32x4 = x.into(); st128(y, out); }
            (T_U128X1, INTO_W64) => { let x: M::u128x1 = ld128(m, a); let y: M::u64x2 = x.into(); st128(y, out); }
            (T_U128X2, INTO_W32) => { let x: M::u128x2 = ld256(m, a); let y: M::u32x4x2 = x.into(); st256(y, out); }
            (T_U128X2, INTO_W64) => { let x: M::u128x2 = ld256(m, a); let y: M::u64x2x2 = x.into(); st256(y, out); }
            (T_U128X4, INTO_W32) => { let x: M::u128x4 = ld512(m, a); let y: M::u32x4x4 = x.into(); st512(y, out); }
            (T_U128X4, INTO_W64) => { let x: M::u128x4 = ld512(m, a); let y: M::u64x2x4 = x.into(); st512(y, out); }
            _ => return None,
        }
        Some(0)
    }
    #[target_feature(enable = "sse2")]
    pub unsafe fn sse2(ty: u32, op: u32, a: &[u8; 64], b: &[u8; 64], c: &[u8; 64], d: &[u8; 64], i: u32, out: &mut [u8; 256]) -> u32 {
        if let Some(r) = conv(SSE2::instance(), ty, op, a, out) {
            return r;
        }
        vecop(SSE2::instance(), ty, op, a, b, c, d, i, out)
    }
    #[target_feature(enable = "ssse3")]
    pub unsafe fn ssse3(ty: u32, op: u32, a: &[u8; 64], b: &[u8; 64], c: &[u8; 64], d: &[u8; 64], i: u32, out: &mut [u8; 256]) -> u32 {
        if let Some(r) = conv(SSSE3::instance(), ty, op, a, out) {
            return r;
        }
        vecop(SSSE3::instance(), ty, op, a, b, c, d, i, out)
    }
    #[target_feature(enable = "sse4.1")]
    #[target_feature(enable = "ssse3")]
    pub unsafe fn sse41(ty: u32, op: u32, a: &[u8; 64], b: &[u8; 64], c: &[u8; 64], d: &[u8; 64], i: u32, out: &mut [u8; 256]) -> u32 {
        if let Some(r) = conv(SSE41::instance(), ty, op, a, out) {
            return r;
        }
        vecop(SSE41::instance(), ty, op, a, b, c, d, i, out)
    }
    #[target_feature(enable = "avx")]
    #[target_feature(enable = "sse4.1")]
    #[target_feature(enable = "ssse3")]
    pub unsafe fn avx(ty: u32, op: u32, a: &[u8; 64], b: &[u8; 64], c: &[u8; 64], d: &[u8; 64], i: u32, out: &mut [u8; 256]) -> u32 {
        if let Some(r) = conv(AVX::instance(), ty, op, a, out) {
            return r;
        }
        vecop(AVX::instance(), ty, op, a, b, c, d, i, out)
    }
    #[target_feature(enable = "avx2")]
    pub unsafe fn avx2(ty: u32, op: u32, a: &[u8; 64], b: &[u8; 64], c: &[u8; 64], d: &[u8; 64], i: u32, out: &mut [u8; 256]) -> u32 {
        if let Some(r) = conv(AVX2::instance(), ty, op, a, out) {
            return r;
        }
        vecop(AVX2::instance(), ty, op, a, b, c, d, i, out)
    }
    #[target_feature(enable = "sse2")]
    pub unsafe fn io_sse2(ty: u32, op: u32, a: &[u8; 64], p: *mut u8, len: usize, out: &mut [u8; 64]) -> u32 {
        vecio(SSE2::instance(), ty, op, a, p, len, out)
    }
    #[target_feature(enable = "ssse3")]
    pub unsafe fn io_ssse3(ty: u32, op: u32, a: &[u8; 64], p: *mut u8, len: usize, out: &mut [u8; 64]) -> u32 {
        vecio(SSSE3::instance(), ty, op, a, p, len, out)
    }
    #[target_feature(enable = "sse4.1")]
    #[target_feature(enable = "ssse3")]
    pub unsafe fn io_sse41(ty: u32, op: u32, a: &[u8; 64], p: *mut u8, len: usize, out: &mut [u8; 64]) -> u32 {
        vecio(SSE41::instance(), ty, op, a, p, len, out)
    }
    #[target_feature(enable = "avx")]
    #[target_feature(enable = "sse4.1")]
    #[target_feature(enable = "ssse3")]
    pub unsafe fn io_avx(ty: u32, op: u32, a: &[u8; 64], p: *mut u8, len: usize, out: &mut [u8; 64]) -> u32 {
        vecio(AVX::instance(), ty, op, a, p, len, out)
    }
    #[target_feature(enable = "avx2")]
    pub unsafe fn io_avx2(ty: u32, op: u32, a: &[u8; 64], p: *mut u8, len: usize, out: &mut [u8; 64]) -> u32 {
        vecio(AVX2::instance(), ty, op, a, p, len, out)
    }
}

#[cfg(not(feature = "no_simd"))]
entries! {
    fn h_vec_sse2(ty: u32, op: u32, a: *const [u8; 64], b: *const [u8; 64], c: *const [u8; 64], d: *const [u8; 64], i: u32, out: *mut [u8; 256]) -> u32 { x86::sse2(ty, op, &*a, &*b, &*c, &*d, i, &mut *out) }
    fn h_vec_ssse3(ty: u32, op: u32, a: *const [u8; 64], b: *const [u8; 64], c: *const [u8; 64], d: *const [u8; 64], i: u32, out: *mut [u8; 256]) -> u32 { x86::ssse3(ty, op, &*a, &*b, &*c, &*d, i, &mut *out) }
    fn h_vec_sse41(ty: u32, op: u32, a: *const [u8; 64], b: *const [u8; 64], c: *const [u8; 64], d: *const [u8; 64], i: u32, out: *mut [u8; 256]) -> u32 { x86::sse41(ty, op, &*a, &*b, &*c, &*d, i, &mut *out) }
    fn h_vec_avx(ty: u32, op: u32, a: *const [u8; 64], b: *const [u8; 64], c: *const [u8; 64], d: *const [u8; 64], i: u32, out: *mut [u8; 256]) -> u32 { x86::avx(ty, op, &*a, &*b, &*c, &*d, i, &mut *out) }
    fn h_vec_avx2(ty: u32, op: u32, a: *const [u8; 64], b: *const [u8; 64], c: *const [u8; 64], d: *const [u8; 64], i: u32, out: *mut [u8; 256]) -> u32 { x86::avx2(ty, op, &*a, &*b, &*c, &*d, i, &mut *out) }
    fn h_vecio_sse2(ty: u32, op: u32, a: *const [u8; 64], p: *mut u8, len: usize, out: *mut [u8; 64]) -> u32 { x86::io_sse2(ty, op, &*a, p, len, &mut *out) }
    fn h_vecio_ssse3(ty: u32, op: u32, a: *const [u8; 64], p: *mut u8, len: usize, out: *mut [u8; 64]) -> u32 { x86::io_ssse3(ty, op, &*a, p, len, &mut *out) }
    fn h_vecio_sse41(ty: u32, op: u32, a: *const [u8; 64], p: *mut u8, len: usize, out: *mut [u8; 64]) -> u32 { x86::io_sse41(ty, op, &*a, p, len, &mut *out) }
    fn h_vecio_avx(ty: u32, op: u32, a: *const [u8; 64], p: *mut u8, len: usize, out: *mut [u8; 64]) -> u32 { x86::io_avx(ty, op, &*a, p, len, &mut *out) }
    fn h_vecio_avx2(ty: u32, op: u32, a: *const [u8; 64], p: *mut u8, len: usize, out: *mut [u8; 64]) -> u32 { x86::io_avx2(ty, op, &*a, p, len, &mut *out) }
}

#[cfg(feature = "no_simd")]
entries! {
    fn h_vec_generic(ty: u32, op: u32, a: *const [u8; 64], b: *const [u8; 64], c: *const [u8; 64], d: *const [u8; 64], i: u32, out: *mut [u8; 256]) -> u32 {
        vecop(ppv_lite86::generic::GenericMachine::instance(), ty, op, &*a, &*b, &*c, &*d, i, &mut *out)
    }
    fn h_vecio_generic(ty: u32, op: u32, a: *const [u8; 64], p: *mut u8, len: usize, out: *mut [u8; 64]) -> u32 {
        vecio(ppv_lite86::generic::GenericMachine::instance(), ty, op, &*a, p, len, &mut *out)
    }
}
