//! Hash functions through the `digest` API (C04-C08, C17): one-shot, re-chunked, cloned, reset, and (with the
//! cfg(cryptocorrosion_verif) state setters) one step from an arbitrary chaining value / counter.
use digest::Digest;

#[inline(always)]
unsafe fn sl<'a>(p: *const u8, n: usize) -> &'a [u8] {
    core::slice::from_raw_parts(p, n)
}
#[inline(always)]
unsafe fn put(out: *mut u8, r: &[u8]) {
    core::ptr::copy_nonoverlapping(r.as_ptr(), out, r.len());
}

/// digest of msg[..len] in one update
#[inline(always)]
pub unsafe fn one_shot<D: Digest>(msg: *const u8, len: usize, out: *mut u8) {
    let mut h = D::new();
    h.update(sl(msg, len));
    put(out, &h.finalize());
}
/// three updates: msg[..c1], msg[c1..c2], msg[c2..len]
#[inline(always)]
pub unsafe fn split3<D: Digest>(msg: *const u8, len: usize, c1: usize, c2: usize, out: *mut u8) {
    let mut h = D::new();
    h.update(sl(msg, c1));
    h.update(sl(msg.add(c1), c2 - c1));
    h.update(sl(msg.add(c2), len - c2));
    put(out, &h.finalize());
}
/// clone at c1: out1 = H(msg) via the original, out2 = H(msg) via the clone, out3 = H(msg[..c1]) via a second clone that
/// must not see the later updates
#[inline(always)]
pub unsafe fn cloned<D: Digest + Clone>(msg: *const u8, len: usize, c1: usize, out1: *mut u8, out2: *mut u8, out3: *mut u8) {
    let mut h = D::new();
    h.update(sl(msg, c1));
    let mut c = h.clone();
    let d = h.clone();
    h.update(sl(msg.add(c1), len - c1));
    c.update(sl(msg.add(c1), len - c1));
    put(out1, &h.finalize());
    put(out2, &c.finalize());
    put(out3, &d.finalize());
}
/// reset after junk[..c1] then hash msg; finalize_reset (Digest: finalises a clone) after junk then hash msg;
/// finalize_fixed_reset (FixedOutput: finalises IN PLACE, then resets) after junk then hash msg
#[inline(always)]
pub unsafe fn reused<D: Digest + digest::FixedOutput + digest::Reset>(msg: *const u8, len: usize, junk: *const u8, c1: usize, out1: *mut u8, out2: *mut u8, out3: *mut u8) {
    let mut h = D::new();
    h.update(sl(junk, c1));
    Digest::reset(&mut h);
    h.update(sl(msg, len));
    put(out1, &h.finalize());
    let mut g = D::new();
    g.update(sl(junk, c1));
    let _ = g.finalize_reset();
    g.update(sl(msg, len));
    put(out2, &g.finalize());
    let mut k = D::new();
    Digest::update(&mut k, sl(junk, c1));
    let _ = digest::FixedOutput::finalize_fixed_reset(&mut k);
    Digest::update(&mut k, sl(msg, len));
    put(out3, &Digest::finalize(k));
}

/// C18: independent instances used interleaved on one thread. out1 = X(m1) (fed in two pieces around the other instances' calls),
/// out2[0..] = Y(m2) via an instance created while X is mid-stream, out2[256..] = Y(m2) via a third instance created even later
#[inline(always)]
pub unsafe fn interleaved<X: Digest, Y: Digest>(m1: *const u8, l1: usize, c: usize, m2: *const u8, l2: usize, out1: *mut u8, out2: *mut u8) {
    let mut a = X::new();
    a.update(sl(m1, c));
    let mut b = Y::new();
    b.update(sl(m2, l2));
    a.update(sl(m1.add(c), l1 - c));
    let mut d = Y::new();
    put(out2, &b.finalize());
    d.update(sl(m2, l2));
    put(out1, &a.finalize());
    put(out2.add(256), &d.finalize());
}

/// C08: an instance in an ARBITRARY state (set through the cfg(cryptocorrosion_verif) hooks) that is reset must behave exactly
/// like a new one: out1 via Reset::reset, out2 via Digest::finalize_reset (finalises a clone), out3 via the in-place
/// FixedOutput::finalize_fixed_reset; each then hashes msg.
#[inline(always)]
pub unsafe fn reset_from<D: Digest + digest::FixedOutput + digest::Reset + Clone>(d: D, msg: *const u8, len: usize, out1: *mut u8, out2: *mut u8, out3: *mut u8) {
    let mut a = d.clone();
    Digest::reset(&mut a);
    Digest::update(&mut a, sl(msg, len));
    put(out1, &Digest::finalize(a));
    let mut b = d.clone();
    let _ = Digest::finalize_reset(&mut b);
    Digest::update(&mut b, sl(msg, len));
    put(out2, &Digest::finalize(b));
    let mut c = d;
    let _ = digest::FixedOutput::finalize_fixed_reset(&mut c);
    Digest::update(&mut c, sl(msg, len));
    put(out3, &Digest::finalize(c));
}
macro_rules! pair_entries {
    ($modname:ident, $name:ident, $x:ty, $y:ty) => {
        pub mod $modname {
            use super::*;
            entries! {
                fn $name(m1: *const u8, l1: usize, c: usize, m2: *const u8, l2: usize, out1: *mut [u8; 512], out2: *mut [u8; 512]) {
                    interleaved::<$x, $y>(m1, l1, c, m2, l2, out1 as *mut u8, out2 as *mut u8)
                }
            }
        }
    };
}

macro_rules! hash_entries {
    ($modname:ident, $t:ty, $one:ident, $split:ident, $clone:ident, $reuse:ident) => {
        pub mod $modname {
            use super::*;
            entries! {
                fn $one(msg: *const u8, len: usize, out: *mut [u8; 512]) { one_shot::<$t>(msg, len, out as *mut u8) }
                fn $split(msg: *const u8, len: usize, c1: usize, c2: usize, out: *mut [u8; 512]) { split3::<$t>(msg, len, c1, c2, out as *mut u8) }
                fn $clone(msg: *const u8, len: usize, c1: usize, out1: *mut [u8; 512], out2: *mut [u8; 512], out3: *mut [u8; 512]) { cloned::<$t>(msg, len, c1, out1 as *mut u8, out2 as *mut u8, out3 as *mut u8) }
                fn $reuse(msg: *const u8, len: usize, junk: *const u8, c1: usize, out1: *mut [u8; 512], out2: *mut [u8; 512], out3: *mut [u8; 512]) { reused::<$t>(msg, len, junk, c1, out1 as *mut u8, out2 as *mut u8, out3 as *mut u8) }
            }
        }
    };
}

use blake_hash::{Blake224, Blake256, Blake384, Blake512};
hash_entries!(b224, Blake224, h_blake224, h_blake224_split, h_blake224_clone, h_blake224_reuse);
hash_entries!(b256, Blake256, h_blake256, h_blake256_split, h_blake256_clone, h_blake256_reuse);
hash_entries!(b384, Blake384, h_blake384, h_blake384_split, h_blake384_clone, h_blake384_reuse);
hash_entries!(b512, Blake512, h_blake512, h_blake512_split, h_blake512_clone, h_blake512_reuse);

/// one step from an arbitrary (chaining value, counter) with p bytes already buffered (hook: verif_set_state)
macro_rules! blake_step {
    ($modname:ident, $name:ident, $rname:ident, $t:ty, $word:ty, $wb:expr) => {
        pub mod $modname {
            use super::*;
            entries! {
                fn $name(h: *const [u8; 8 * $wb], t0: u64, t1: u64, prefill: *const u8, p: usize, msg: *const u8, len: usize, out: *mut [u8; 512]) {
                    let mut d = <$t>::default();
                    d.update(sl(prefill, p));
                    let mut hw = [0 as $word; 8];
                    for i in 0..8 {
                        let mut b = [0u8; $wb];
                        b.copy_from_slice(&(&*h)[$wb * i..$wb * i + $wb]);
                        hw[i] = <$word>::from_le_bytes(b);
                    }
                    d.verif_set_state(hw, (t0 as $word, t1 as $word));
                    d.update(sl(msg, len));
                    put(out as *mut u8, &d.finalize());
                }
                fn $rname(h: *const [u8; 8 * $wb], t0: u64, t1: u64, prefill: *const u8, p: usize, msg: *const u8, len: usize, out1: *mut [u8; 512], out2: *mut [u8; 512], out3: *mut [u8; 512]) {
                    let mut d = <$t>::default();
                    d.update(sl(prefill, p));
                    let mut hw = [0 as $word; 8];
                    for i in 0..8 {
                        let mut b = [0u8; $wb];
                        b.copy_from_slice(&(&*h)[$wb * i..$wb * i + $wb]);
                        hw[i] = <$word>::from_le_bytes(b);
                    }
                    d.verif_set_state(hw, (t0 as $word, t1 as $word));
                    reset_from(d, msg, len, out1 as *mut u8, out2 as *mut u8, out3 as *mut u8);
                }
            }
        }
    };
}
blake_step!(bs224, h_blake224_step, h_blake224_rst, Blake224, u32, 4);
blake_step!(bs256, h_blake256_step, h_blake256_rst, Blake256, u32, 4);
blake_step!(bs384, h_blake384_step, h_blake384_rst, Blake384, u64, 8);
blake_step!(bs512, h_blake512_step, h_blake512_rst, Blake512, u64, 8);

macro_rules! skein_step {
    ($modname:ident, $name:ident, $rname:ident, $t:ty, $nb:expr) => {
        pub mod $modname {
            use super::*;
            entries! {
                fn $rname(x: *const [u8; $nb], t0: u64, t1: u64, prefill: *const u8, p: usize, msg: *const u8, len: usize, out1: *mut [u8; 512], out2: *mut [u8; 512], out3: *mut [u8; 512]) {
                    let mut d = <$t>::default();
                    d.update(sl(prefill, p));
                    d.verif_set_state(digest::generic_array::GenericArray::from_slice(&*x), t0, t1);
                    reset_from(d, msg, len, out1 as *mut u8, out2 as *mut u8, out3 as *mut u8);
                }
                fn $name(x: *const [u8; $nb], t0: u64, t1: u64, prefill: *const u8, p: usize, msg: *const u8, len: usize, out: *mut [u8; 512]) {
                    let mut d = <$t>::default();
                    d.update(sl(prefill, p));
                    d.verif_set_state(digest::generic_array::GenericArray::from_slice(&*x), t0, t1);
                    d.update(sl(msg, len));
                    put(out as *mut u8, &d.finalize());
                }
            }
        }
    };
}
skein_step!(ss256, h_skein256_32_step, h_skein256_32_rst, Skein256<U32>, 32);
skein_step!(ss512, h_skein512_64_step, h_skein512_64_rst, Skein512<U64>, 64);
skein_step!(ss1024, h_skein1024_128_step, h_skein1024_128_rst, Skein1024<U128>, 128);

use digest::generic_array::typenum::{U1, U100, U128, U129, U16, U200, U257, U31, U32, U33, U64, U65, U7, U8};
use skein_hash::{Skein1024, Skein256, Skein512};
// more than 256 output blocks (the output counter is a 64-bit little-endian block index)
macro_rules! skein_long {
    ($modname:ident, $name:ident, $t:ty, $osz:expr) => {
        pub mod $modname {
            use super::*;
            entries! {
                fn $name(msg: *const u8, len: usize, out: *mut [u8; $osz]) { one_shot::<$t>(msg, len, out as *mut u8) }
            }
        }
    };
}
use digest::generic_array::typenum::{Sum, U16384, U32768, U8192};
skein_long!(sl256, h_skein256_8225, Skein256<Sum<U8192, U33>>, 8256);
skein_long!(sl512, h_skein512_16449, Skein512<Sum<U16384, U65>>, 16512);
skein_long!(sl1024, h_skein1024_32897, Skein1024<Sum<U32768, U129>>, 33024);
pair_entries!(pb1, h_pair_blake256_blake224, Blake256, Blake224);
pair_entries!(pb2, h_pair_blake224_blake256, Blake224, Blake256);
pair_entries!(pb3, h_pair_blake512_blake384, Blake512, Blake384);
pair_entries!(ps1, h_pair_skein512_64_skein512_32, Skein512<U64>, Skein512<U32>);
pair_entries!(ps2, h_pair_skein256_32_skein256_32, Skein256<U32>, Skein256<U32>);
hash_entries!(s256_32, Skein256<U32>, h_skein256_32, h_skein256_32_split, h_skein256_32_clone, h_skein256_32_reuse);
hash_entries!(s256_64, Skein256<U64>, h_skein256_64, h_skein256_64_split, h_skein256_64_clone, h_skein256_64_reuse);
hash_entries!(s256_7, Skein256<U7>, h_skein256_7, h_skein256_7_split, h_skein256_7_clone, h_skein256_7_reuse);
hash_entries!(s256_33, Skein256<U33>, h_skein256_33, h_skein256_33_split, h_skein256_33_clone, h_skein256_33_reuse);
hash_entries!(s256_100, Skein256<U100>, h_skein256_100, h_skein256_100_split, h_skein256_100_clone, h_skein256_100_reuse);
hash_entries!(s512_32, Skein512<U32>, h_skein512_32, h_skein512_32_split, h_skein512_32_clone, h_skein512_32_reuse);
hash_entries!(s512_64, Skein512<U64>, h_skein512_64, h_skein512_64_split, h_skein512_64_clone, h_skein512_64_reuse);
hash_entries!(s512_1, Skein512<U1>, h_skein512_1, h_skein512_1_split, h_skein512_1_clone, h_skein512_1_reuse);
hash_entries!(s512_65, Skein512<U65>, h_skein512_65, h_skein512_65_split, h_skein512_65_clone, h_skein512_65_reuse);
hash_entries!(s512_129, Skein512<U129>, h_skein512_129, h_skein512_129_split, h_skein512_129_clone, h_skein512_129_reuse);
hash_entries!(s1024_32, Skein1024<U32>, h_skein1024_32, h_skein1024_32_split, h_skein1024_32_clone, h_skein1024_32_reuse);
hash_entries!(s1024_64, Skein1024<U64>, h_skein1024_64, h_skein1024_64_split, h_skein1024_64_clone, h_skein1024_64_reuse);
hash_entries!(s1024_128, Skein1024<U128>, h_skein1024_128, h_skein1024_128_split, h_skein1024_128_clone, h_skein1024_128_reuse);
hash_entries!(s1024_31, Skein1024<U31>, h_skein1024_31, h_skein1024_31_split, h_skein1024_31_clone, h_skein1024_31_reuse);
hash_entries!(s1024_200, Skein1024<U200>, h_skein1024_200, h_skein1024_200_split, h_skein1024_200_clone, h_skein1024_200_reuse);
hash_entries!(s1024_257, Skein1024<U257>, h_skein1024_257, h_skein1024_257_split, h_skein1024_257_clone, h_skein1024_257_reuse);
hash_entries!(s256_8, Skein256<U8>, h_skein256_8, h_skein256_8_split, h_skein256_8_clone, h_skein256_8_reuse);
hash_entries!(s512_16, Skein512<U16>, h_skein512_16, h_skein512_16_split, h_skein512_16_clone, h_skein512_16_reuse);

#[cfg(feature = "x86hashes")]
pub mod x86 {
    use super::*;
    use groestl_aesni::{Groestl224, Groestl256, Groestl384, Groestl512};
    use jh_x86_64::{Jh224, Jh256, Jh384, Jh512};
    pair_entries!(pg1, h_pair_groestl256_groestl224, Groestl256, Groestl224);
    pair_entries!(pg2, h_pair_groestl224_groestl256, Groestl224, Groestl256);
    pair_entries!(pg3, h_pair_groestl512_groestl384, Groestl512, Groestl384);
    pair_entries!(pg4, h_pair_groestl384_groestl512, Groestl384, Groestl512);
    pair_entries!(pj1, h_pair_jh256_jh224, Jh256, Jh224);
    pair_entries!(pj2, h_pair_jh384_jh512, Jh384, Jh512);
    hash_entries!(g224, Groestl224, h_groestl224, h_groestl224_split, h_groestl224_clone, h_groestl224_reuse);
    hash_entries!(g256, Groestl256, h_groestl256, h_groestl256_split, h_groestl256_clone, h_groestl256_reuse);
    hash_entries!(g384, Groestl384, h_groestl384, h_groestl384_split, h_groestl384_clone, h_groestl384_reuse);
    hash_entries!(g512, Groestl512, h_groestl512, h_groestl512_split, h_groestl512_clone, h_groestl512_reuse);
    hash_entries!(j224, Jh224, h_jh224, h_jh224_split, h_jh224_clone, h_jh224_reuse);
    hash_entries!(j256, Jh256, h_jh256, h_jh256_split, h_jh256_clone, h_jh256_reuse);
    hash_entries!(j384, Jh384, h_jh384, h_jh384_split, h_jh384_clone, h_jh384_reuse);
    hash_entries!(j512, Jh512, h_jh512, h_jh512_split, h_jh512_clone, h_jh512_reuse);
    macro_rules! groestl_step {
        ($modname:ident, $name:ident, $rname:ident, $t:ty, $nb:expr, $inner:expr) => {
            pub mod $modname {
                use super::*;
                entries! {
                    fn $rname(cv: *const [u8; $nb], counter: u64, prefill: *const u8, p: usize, msg: *const u8, len: usize, out1: *mut [u8; 512], out2: *mut [u8; 512], out3: *mut [u8; 512]) {
                        let mut d = <$t>::default();
                        d.update(sl(prefill, p));
                        let mut w = [0u64; $nb / 8];
                        for i in 0..$nb / 8 {
                            let mut b = [0u8; 8];
                            b.copy_from_slice(&(&*cv)[8 * i..8 * i + 8]);
                            w[i] = u64::from_le_bytes(b);
                        }
                        let f: fn(&mut $t, [u64; $nb / 8], u64) = $inner;
                        f(&mut d, w, counter);
                        reset_from(d, msg, len, out1 as *mut u8, out2 as *mut u8, out3 as *mut u8);
                    }
                    fn $name(cv: *const [u8; $nb], counter: u64, prefill: *const u8, p: usize, msg: *const u8, len: usize, out: *mut [u8; 512]) {
                        let mut d = <$t>::default();
                        d.update(sl(prefill, p));
                        let mut w = [0u64; $nb / 8];
                        for i in 0..$nb / 8 {
                            let mut b = [0u8; 8];
                            b.copy_from_slice(&(&*cv)[8 * i..8 * i + 8]);
                            w[i] = u64::from_le_bytes(b);
                        }
                        let f: fn(&mut $t, [u64; $nb / 8], u64) = $inner;
                        f(&mut d, w, counter);
                        d.update(sl(msg, len));
                        put(out as *mut u8, &d.finalize());
                    }
                }
            }
        };
    }
    groestl_step!(gs224, h_groestl224_step, h_groestl224_rst, Groestl224, 64, |d, w, c| d.verif_inner().verif_set_state(w, c));
    groestl_step!(gs256, h_groestl256_step, h_groestl256_rst, Groestl256, 64, |d, w, c| d.verif_set_state(w, c));
    groestl_step!(gs384, h_groestl384_step, h_groestl384_rst, Groestl384, 128, |d, w, c| d.verif_inner().verif_set_state(w, c));
    groestl_step!(gs512, h_groestl512_step, h_groestl512_rst, Groestl512, 128, |d, w, c| d.verif_set_state(w, c));
    macro_rules! jh_step {
        ($modname:ident, $name:ident, $rname:ident, $t:ty) => {
            pub mod $modname {
                use super::*;
                entries! {
                    fn $rname(state: *const [u8; 128], datalen: usize, prefill: *const u8, p: usize, msg: *const u8, len: usize, out1: *mut [u8; 512], out2: *mut [u8; 512], out3: *mut [u8; 512]) {
                        let mut d = <$t>::default();
                        d.update(sl(prefill, p));
                        d.verif_set_state(*state, datalen);
                        reset_from(d, msg, len, out1 as *mut u8, out2 as *mut u8, out3 as *mut u8);
                    }
                    fn $name(state: *const [u8; 128], datalen: usize, prefill: *const u8, p: usize, msg: *const u8, len: usize, out: *mut [u8; 512]) {
                        let mut d = <$t>::default();
                        d.update(sl(prefill, p));
                        d.verif_set_state(*state, datalen);
                        d.update(sl(msg, len));
                        put(out as *mut u8, &d.finalize());
                    }
                }
            }
        };
    }
    pub mod jhcore {
        use super::*;
        use digest::generic_array::GenericArray;
        use jh_x86_64::compressor::{verif_rounds, Compressor};
        use ppv_lite86::vec128_storage;
        #[inline(always)]
        unsafe fn to_st(b: &[u8; 128]) -> [vec128_storage; 8] {
            let mut st = [vec128_storage::default(); 8];
            for i in 0..8 {
                let w = |k: usize| u32::from_le_bytes([b[16 * i + 4 * k], b[16 * i + 4 * k + 1], b[16 * i + 4 * k + 2], b[16 * i + 4 * k + 3]]);
                st[i] = vec128_storage::from([w(0), w(1), w(2), w(3)]);
            }
            st
        }
        #[inline(always)]
        unsafe fn from_st(st: &[vec128_storage; 8], b: &mut [u8; 128]) {
            for i in 0..8 {
                let w: [u32; 4] = st[i].into();
                for k in 0..4 {
                    b[16 * i + 4 * k..16 * i + 4 * k + 4].copy_from_slice(&w[k].to_le_bytes());
                }
            }
        }
        entries! {
            // the real compression function through the public Compressor API
            fn h_jh_f8(state: *mut [u8; 128], block: *const [u8; 64]) {
                let mut c = Compressor::new(*state);
                c.input(GenericArray::from_slice(&*block));
                *state = c.finalize();
            }
            // rounds from..to of E8 on the bit-sliced state (hook)
            fn h_jh_rounds(state: *mut [u8; 128], from: usize, to: usize) {
                let mut st = to_st(&*state);
                verif_rounds(&mut st, from, to);
                from_st(&st, &mut *state);
            }
            // F8 re-assembled from the hook: xor-in, 42 rounds, xor-out
            fn h_jh_f8_via_rounds(state: *mut [u8; 128], block: *const [u8; 64]) {
                let s = &mut *state;
                for i in 0..64 { s[i] ^= (&*block)[i]; }
                let mut st = to_st(s);
                verif_rounds(&mut st, 0, 42);
                from_st(&st, s);
                for i in 0..64 { s[64 + i] ^= (&*block)[i]; }
            }
        }
    }
    jh_step!(js224, h_jh224_step, h_jh224_rst, Jh224);
    jh_step!(js256, h_jh256_step, h_jh256_rst, Jh256);
    jh_step!(js384, h_jh384_step, h_jh384_rst, Jh384);
    jh_step!(js512, h_jh512_step, h_jh512_rst, Jh512);
    pub fn dispatch(name: &str, args: &[String]) -> Option<Vec<String>> {
        gs224::dispatch(name, args).or_else(|| gs256::dispatch(name, args)).or_else(|| gs384::dispatch(name, args)).or_else(|| gs512::dispatch(name, args))
            .or_else(|| jhcore::dispatch(name, args)).or_else(|| js224::dispatch(name, args)).or_else(|| js256::dispatch(name, args)).or_else(|| js384::dispatch(name, args)).or_else(|| js512::dispatch(name, args))
            .or_else(|| dispatch0(name, args))
    }
    pub fn dispatch0(name: &str, args: &[String]) -> Option<Vec<String>> {
        g224::dispatch(name, args).or_else(|| g256::dispatch(name, args)).or_else(|| g384::dispatch(name, args)).or_else(|| g512::dispatch(name, args))
            .or_else(|| j224::dispatch(name, args)).or_else(|| j256::dispatch(name, args)).or_else(|| j384::dispatch(name, args)).or_else(|| j512::dispatch(name, args))
            .or_else(|| pg1::dispatch(name, args)).or_else(|| pg2::dispatch(name, args)).or_else(|| pg3::dispatch(name, args)).or_else(|| pg4::dispatch(name, args))
            .or_else(|| pj1::dispatch(name, args)).or_else(|| pj2::dispatch(name, args))
    }
}

pub fn dispatch(name: &str, args: &[String]) -> Option<Vec<String>> {
    let r = b224::dispatch(name, args).or_else(|| b256::dispatch(name, args)).or_else(|| b384::dispatch(name, args)).or_else(|| b512::dispatch(name, args))
        .or_else(|| s256_32::dispatch(name, args)).or_else(|| s256_64::dispatch(name, args)).or_else(|| s256_7::dispatch(name, args))
        .or_else(|| s256_33::dispatch(name, args)).or_else(|| s256_100::dispatch(name, args)).or_else(|| s256_8::dispatch(name, args))
        .or_else(|| s512_32::dispatch(name, args)).or_else(|| s512_64::dispatch(name, args)).or_else(|| s512_1::dispatch(name, args))
        .or_else(|| s512_65::dispatch(name, args)).or_else(|| s512_129::dispatch(name, args)).or_else(|| s512_16::dispatch(name, args))
        .or_else(|| s1024_32::dispatch(name, args)).or_else(|| s1024_64::dispatch(name, args)).or_else(|| s1024_128::dispatch(name, args))
        .or_else(|| s1024_31::dispatch(name, args)).or_else(|| s1024_200::dispatch(name, args)).or_else(|| s1024_257::dispatch(name, args))
        .or_else(|| bs224::dispatch(name, args)).or_else(|| bs256::dispatch(name, args)).or_else(|| bs384::dispatch(name, args)).or_else(|| bs512::dispatch(name, args))
        .or_else(|| ss256::dispatch(name, args)).or_else(|| ss512::dispatch(name, args)).or_else(|| ss1024::dispatch(name, args))
        .or_else(|| pb1::dispatch(name, args)).or_else(|| pb2::dispatch(name, args)).or_else(|| pb3::dispatch(name, args))
        .or_else(|| ps1::dispatch(name, args)).or_else(|| ps2::dispatch(name, args))
        .or_else(|| sl256::dispatch(name, args)).or_else(|| sl512::dispatch(name, args)).or_else(|| sl1024::dispatch(name, args));
    #[cfg(feature = "x86hashes")]
    let r = r.or_else(|| x86::dispatch(name, args));
    r
}
