//! vreplay <entry> <hexarg>... : run one harness entry natively and print its outputs (one per line).
fn main() {
    let a: Vec<String> = std::env::args().skip(1).collect();
    if a.is_empty() {
        eprintln!("usage: vreplay <entry> <hexarg>...");
        std::process::exit(2);
    }
    #[cfg(all(cryptocorrosion_verif, feature = "std", not(feature = "no_simd")))]
    if let Ok(m) = std::env::var("VERIF_CPU") {
        // simulated CPU feature set for the run-time dispatchers (hook H1)
        ppv_lite86::x86_64::verif_set_cpu_features(m.parse().unwrap());
    }
    match vharness::dispatch(&a[0], &a[1..]) {
        Some(out) => {
            for l in out {
                println!("{}", l);
            }
        }
        None => {
            eprintln!("unknown entry {}", a[0]);
            std::process::exit(2);
        }
    }
}
