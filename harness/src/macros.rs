/// Defines `#[no_mangle] extern "C"` entries and a by-name replay dispatcher for them.
macro_rules! entries {
    ($( fn $name:ident($($a:ident: $t:ty),* $(,)?) $(-> $r:ty)? $body:block )*) => {
        $(
            #[no_mangle]
            #[inline(never)]
            pub unsafe extern "C" fn $name($($a: $t),*) $(-> $r)? $body
        )*
        #[allow(unused_mut, unused_variables, unused_assignments)]
        pub fn dispatch(name: &str, args: &[String]) -> Option<Vec<String>> {
            use $crate::rarg::RArg;
            match name {
                $(
                    stringify!($name) => {
                        let mut i = 0usize;
                        $( let mut $a = <$t as RArg>::parse(&args[i]); i += 1; )*
                        let r = unsafe { $name($( <$t as RArg>::pass(&mut $a) ),*) };
                        let mut out = Vec::new();
                        $( <$t as RArg>::dump(&$a, &mut out); )*
                        out.push(format!("ret={:?}", r));
                        Some(out)
                    }
                )*
                _ => None,
            }
        }
    };
}
