//! Marshalling of replay arguments (hex strings) to the C ABI of the entries.
pub trait RArg: Sized {
    type Store;
    fn parse(s: &str) -> Self::Store;
    fn pass(st: &mut Self::Store) -> Self;
    fn dump(_st: &Self::Store, _out: &mut Vec<String>) {}
}

pub fn unhex(s: &str) -> Vec<u8> {
    let s = s.trim();
    (0..s.len() / 2)
        .map(|i| u8::from_str_radix(&s[2 * i..2 * i + 2], 16).unwrap())
        .collect()
}
pub fn hex(b: &[u8]) -> String {
    b.iter().map(|x| format!("{:02x}", x)).collect()
}

macro_rules! scalar {
    ($($t:ty),*) => {$(
        impl RArg for $t {
            type Store = $t;
            fn parse(s: &str) -> $t { <$t>::from_str_radix(s.trim_start_matches("0x"), 16).unwrap() }
            fn pass(st: &mut $t) -> $t { *st }
        }
    )*};
}
scalar!(u8, u16, u32, u64, u128, usize);

impl RArg for i32 {
    type Store = i32;
    fn parse(s: &str) -> i32 {
        u32::from_str_radix(s.trim_start_matches("0x"), 16).unwrap() as i32
    }
    fn pass(st: &mut i32) -> i32 {
        *st
    }
}

impl RArg for *const u8 {
    type Store = Vec<u8>;
    fn parse(s: &str) -> Vec<u8> {
        unhex(s)
    }
    fn pass(st: &mut Vec<u8>) -> *const u8 {
        st.as_ptr()
    }
}
impl RArg for *mut u8 {
    type Store = Vec<u8>;
    fn parse(s: &str) -> Vec<u8> {
        unhex(s)
    }
    fn pass(st: &mut Vec<u8>) -> *mut u8 {
        st.as_mut_ptr()
    }
    fn dump(st: &Vec<u8>, out: &mut Vec<String>) {
        out.push(hex(st));
    }
}
impl<const N: usize> RArg for *const [u8; N] {
    type Store = Vec<u8>;
    fn parse(s: &str) -> Vec<u8> {
        let v = unhex(s);
        assert_eq!(v.len(), N);
        v
    }
    fn pass(st: &mut Vec<u8>) -> *const [u8; N] {
        st.as_ptr() as *const [u8; N]
    }
}
impl<const N: usize> RArg for *mut [u8; N] {
    type Store = Vec<u8>;
    fn parse(s: &str) -> Vec<u8> {
        let v = unhex(s);
        assert_eq!(v.len(), N);
        v
    }
    fn pass(st: &mut Vec<u8>) -> *mut [u8; N] {
        st.as_mut_ptr() as *mut [u8; N]
    }
    fn dump(st: &Vec<u8>, out: &mut Vec<String>) {
        out.push(hex(st));
    }
}
