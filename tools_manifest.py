#!/usr/bin/env python3-vt
# regenerates MANIFEST.json from the table below (keeps not_applicable current for every property not claimed)
import json, os
V = os.path.dirname(os.path.abspath(__file__))
props = [json.loads(l) for l in open(os.path.join(V, 'properties.jsonl'))]

TB = ('rustc front end + LLVM optimiser are inside the check (optimised IR is what is executed symbolically); trusted: LLVM back end, CPU, '
      'llsym instruction semantics (validated against native runs in setup), z3; harness built with panic=abort')

L = 'symbolic execution of rustc-emitted optimised LLVM IR (llsym) + z3 equivalence queries against an independent reference; counterexamples replayed natively'
CHECKS = {
 'C01': dict(technique=L, design='DESIGN.md 5 (C01)',
   text='End to end through the RustCrypto API (new, try_seek(64B+o), try_apply_keystream(data[..L])) for the 7 cipher types: key, nonce, block number B (58/32 bits) and data symbolic, offset o and length L enumerated (incl. requests that continue after a wide 4-block refill); every dispatcher arm (CPU-feature word symbolic) and the portable build. Solver-decided equality with the RFC 7539 / HChaCha reference, and "nothing else changes" via exact-bounds memory objects.'),
 'C02': dict(technique='inductive step from an arbitrary invariant state: symbolic execution of the optimised IR of try_apply_keystream / try_seek / try_current_pos / new with the keystream cores summarised (assume-guarantee with C14), z3 for the obligations', design='DESIGN.md 5 (C02)',
   text='One inductive step instead of histories: from ANY buffered state satisfying a stated representation invariant (counter, len, fresh, buffer, key, stream id symbolic; buffer fill -63..63 and request length 0..70/330 enumerated) every operation XORs the keystream bytes of the absolute position, moves the position exactly and re-establishes the invariant, in the release and the overflow-checked IR; seek over every SeekNum type with the position symbolic over the whole type.'),
 'C04': dict(technique=L, design='DESIGN.md 5 (C04)',
   text='Full digests of the four variants with a symbolic message for the length classes the property names (all dispatcher arms + portable build), and one step update+finalize from an ARBITRARY chaining value / bit counter / buffer fill (hook), against a reference written from the BLAKE document; overflow-checked build explored for reachable panics.'),
 'C05': dict(technique=L, design='DESIGN.md 5 (C05)',
   text='Skein-256/512/1024 digests with real Threefish inside for symbolic messages over the length classes and a finite set of output sizes (incl. several output blocks, non-multiples of 8, and sizes that need more than 256 output blocks), plus one UBI continuation step from an arbitrary (chaining value, byte counter) state.'),
 'C09': dict(technique=L, design='DESIGN.md 5 (C09)',
   text='Threefish-256/512/1024 encryption with key, tweak and block fully symbolic proved equal (canonical identity / z3) to a reference typed from the Skein 1.3 tables, for the unrolled, no_unroll and overflow-checked builds.'),
 'C10': dict(technique=L, design='DESIGN.md 5 (C10)',
   text='decrypt(encrypt(b)) and encrypt(decrypt(b)) executed back to back on the real code with key, tweak and block symbolic: both reduce to b (linear normal form, rotate cancellation; residues to z3), three sizes, three builds.'),
 'C11': dict(technique='same inductive-step entries as C02 with the counter symbolic across every boundary, plus end-of-stream scenarios on the real cores; z3 decides the iff-characterisation of exhaustion', design='DESIGN.md 5 (C11)',
   text='IETF: from any invariant state apply(n) is Ok iff P+n <= 2^38, a failed apply is atomic (data, position, invariant intact), try_seek is Ok iff p <= 2^38 and an error otherwise for every SeekNum type; 64-bit types never report exhaustion (counter < 2^58); nonce words never change (finds the known carry defect).'),
 'C12': dict(technique=L, design='DESIGN.md 5 (C12/C13)',
   text='Complete (backend x vector type x operation) grid required by the Machine trait bounds: each operation of each of the six backends executed symbolically on 512-bit symbolic operands and proved equal to its scalar meaning; panicking operations are violations.'),
 'C13': dict(technique=L, design='DESIGN.md 5 (C12/C13)',
   text='Same grid for data movement: insert/extract at every index, to_lanes/from_lanes, to_scalars, transpose4, LE/BE byte loads and stores, storage round trips, on every backend; and the u128xN -> u32x4xN / u64x2xN From conversions the five x86 machines declare between their vector types (bit-identical reinterpretation).'),
 'C14': dict(technique=L, design='DESIGN.md 5 (C14)',
   text='For each double-round count 0..=10 and each build (std run-time dispatch with the CPU-feature word symbolic, no_simd, 5 no-std target-feature builds in thorough), refill4 / 4 x refill / refill are executed symbolically from the optimised IR with key, stream id and 64-bit counter symbolic and proved equal to the reference block function at counters c..c+3 and final state c+4 (c+1); the overflow-checked build is explored for reachable panics.'),
 'C15': dict(technique=L, design='DESIGN.md 5 (C15)',
   text='set/get_stream_param round trip, isolation and equality with a directly constructed state (following block at 0/1/10 double rounds; history set -> refill4 -> get -> refill), and the boolean iff-characterisation of stream32_eq / stream64_eq, all values symbolic, 4 builds.'),
 'C03': dict(technique='implementation-vs-implementation equivalence: the same entry executed symbolically along every dispatcher arm, in the portable build and in no-std target-feature builds; canonical identity / z3; JH per round in algebraic normal form', design='DESIGN.md 5 (C03)',
   text='Every dispatching entry (ChaCha refill / apply, BLAKE, Groestl, JH, Skein steps) is executed from its real dispatcher with the CPU-feature word symbolic; the results of all arms, of the no_simd build and of the compile-time-selected no-std builds are proved equal for all inputs (so no arm is consulted against a reference that could share a mistake); in the overflow-checked builds a backend that panics where the others return is reported.'),
 'C06': dict(technique=L + '; JH compression proved round by round in algebraic normal form with cut points on the real f8', design='DESIGN.md 5 (C06)',
   text='JH-224/256/384/512: 42 per-round lemmas per dispatcher arm, the real f8 cut into 42 slices at SSA values matched by simulation signature (each slice = the nibble-oriented round of the submission), and the padding / length framing with f8 uninterpreted, including one step from an arbitrary (state, data length).'),
 'C07': dict(technique=L, design='DESIGN.md 5 (C07)',
   text='Groestl-224/256/384/512 full digests for symbolic messages over the padding-boundary length classes and one step from an arbitrary (chaining value, block counter), on the AES-NI, SSSE3 and SSE2 arms; the AES S-box is an uninterpreted function shared by both sides.'),
 'C08': dict(technique='symbolic execution of the Digest API call sequences with the compression functions uninterpreted (Skein: real core); the digest terms of the split / cloned / reset runs (and of a reset from an arbitrary symbolic state) are compared with the one-shot term; counterexample candidates come from the solver or from evaluation under a pseudo-random interpretation of the uninterpreted functions and are replayed natively', design='DESIGN.md 5 (C08)',
   text='For all 15 hash types: update in three pieces, clone mid-stream (also after whole blocks were compressed), reset, Digest::finalize_reset and the in-place FixedOutput::finalize_fixed_reset then reuse, each against the one-shot digest of the concatenation, for a set of piece lengths around every buffer boundary and buffer fills plus one long (512-byte) piece; and one reset step from an ARBITRARY internal state (chaining value and every counter symbolic, set through the cfg hooks): reset, finalize_reset and finalize_fixed_reset must each leave an instance that hashes like a new one. Message bytes symbolic.'),
 'C16': dict(technique='memory-access monitor inside the symbolic execution of the optimised IR: every caller slice is an object with exact bounds, alignment 1 and a symbolic base address', design='DESIGN.md 5 (C16)',
   text='Byte-slice entries of every algorithm and backend (ChaCha apply, hash update/finalize, JH f8, Threefish blocks, vector read/write LE/BE): every load / store / memcpy is shown to lie inside its object, to declare no more alignment than the object guarantees at that offset, no result term mentions a base-address variable, no panic is selected by an address, and read_le/read_be/write_le/write_be handed a slice of the wrong length (object of exactly that many bytes) never access outside it.'),
 'C17': dict(technique=L + '; the length counters are symbolic over their full width', design='DESIGN.md 5 (C17)',
   text='One update of n bytes (one to three blocks) + finalize from an arbitrary chaining value and an arbitrary counter (hook), for BLAKE (64/128-bit bit counter incl. the word carry), Groestl (64-bit block counter), JH (byte counter) and Skein (byte counter): counter arguments of every compression call and the encoded length are exact arithmetic; overflow-checked IR explored for reachable panics.'),
 'C18': dict(level='other', technique='symbolic execution of the dispatching entries: log of stores to globals / thread-locals and their atomicity, cold-cache vs warm-cache result equality, interleaved instances in one execution vs alone (z3 / canonical identity); thread schedules are not explored', design='DESIGN.md 5 (C18)',
   text='Not a concurrency model check: shows (P1/P2) every store to process-wide state is atomic or inside Once::call (plain stores to globals are reported as races; the state touched beyond the dispatch caches is listed), (P3) results with a cold cache equal results with an initialised cache for every feature word, (P4) instances of related hash types used alternately in one symbolic execution give the digests they give alone. Thread interleavings themselves are outside what the technique reaches here.'),
 'C19': dict(engine='kani', technique='Kani (CBMC) proof harnesses over kani::any() operands on the ppv-null crate, unwinding assertions on; counterexamples via concrete playback', design='DESIGN.md 3, 5 (C19)',
   text='22 harnesses, one per method group and vector type of ppv-null: every operation equals its scalar meaning and never panics for all operands, rotation amounts 1..bits-1 and valid indices, in the overflow- and bounds-checked dev profile.',
   note='trusted: Kani / CBMC / cadical, rustc MIR; bounds: unwind limits checked by unwinding assertions'),
 'C20': dict(technique='the compiler decides "builds" over the declared feature lattice; llsym + z3 decide cross-configuration equality of results on a subset of entries (as C03 / C09)', design='DESIGN.md 5 (C20)',
   text='Every declared feature combination of every crate is built (49 lattice points), failures are violations; for the algorithm entries the optimised IR of different configurations (std / no_simd / no-std target-feature / no_unroll) is executed symbolically and the results proved equal (ChaCha, BLAKE, Threefish encryption and both round trips).'),
}
for v in CHECKS.values():
    v.setdefault('note', TB)
NA_DEFAULT = 'check not built yet (work in progress; see DESIGN.md)'
NA = {}

m = {
 'version': 1,
 'setup_cmd': 'cd /verif && ./setup.sh',
 'hooks': {'guard': 'cryptocorrosion_verif', 'enable': 'RUSTFLAGS="--cfg cryptocorrosion_verif" (set by llsym/build.py for every harness build)',
           'baseline_off_cmd': 'cd /repo && cargo test --workspace --no-fail-fast --offline', 'source_commits': ['44831cf', 'd2d1156', 'f8af2ad'], 'add_only': True},
 'engines': [
   {'name': 'kani', 'path': 'kani/', 'serves_properties': ['C19'], 'kind_free_text': 'Kani 0.68 / CBMC proof harnesses on ppv-null (path dependency on /repo)'},
   {'name': 'llsym', 'path': 'llsym/', 'serves_properties': sorted(k for k in CHECKS if k != 'C19'), 'kind_free_text': 'symbolic executor for the optimised LLVM IR rustc emits for /repo (all backend arms, dispatchers) over a canonicalising bit-vector term layer; z3 decides residual queries; native replay of models'},
 ],
 'checks': [], 'not_applicable': [],
 'notes': 'exit codes: 0 held, 1 VIOLATION (natively replayed), 2 inconclusive/tool error. known_findings.json lists recorded and fixed defects. Thorough tier: each parallel phase has a time budget (VERIF_PHASE_BUDGET_S, default 900 s); tasks not started within it are counted as skipped in the evidence. seeded/ holds 36 confirmed seeded changes and the change x check matrix (seeded/RESULTS.md).',
}
for p in props:
    i = p['id']
    c = CHECKS.get(i)
    if c is None:
        m['not_applicable'].append({'property_id': i, 'reason': NA.get(i, NA_DEFAULT)})
        continue
    m['checks'].append({
        'property_id': i, 'quick_cmd': './check %s --tier quick' % i, 'thorough_cmd': './check %s --tier thorough' % i,
        'evidence_file': '/verif/evidence/%s.json' % i, 'replay_cmd_template': './check %s --replay {path}' % i, 'engine': c.get('engine', 'llsym'),
        'level_claimed': {'category': c.get('level', 'model_checking'), 'text': c['text'], 'design_ref': c['design']},
        'level_note': c['note'], 'technique': c['technique']})
json.dump(m, open(os.path.join(V, 'MANIFEST.json'), 'w'), indent=1)
import jsonschema
jsonschema.validate(m, json.load(open('/root/.vp/MANIFEST.schema.json')))
print('MANIFEST ok:', len(m['checks']), 'checks,', len(m['not_applicable']), 'not applicable')
