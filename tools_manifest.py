#!/usr/bin/env python3-vt
# regenerates MANIFEST.json from the table below (keeps not_applicable current for every property not claimed)
import json, os
V = os.path.dirname(os.path.abspath(__file__))
props = [json.loads(l) for l in open(os.path.join(V, 'properties.jsonl'))]

TB = ('rustc front end + LLVM optimiser are inside the check (optimised IR is what is executed symbolically); trusted: LLVM back end, CPU, '
      'llsym instruction semantics (validated against native runs in setup), z3; harness built with panic=abort')

CHECKS = {
 'C14': dict(
   technique='symbolic execution of rustc-emitted LLVM IR (llsym) + z3 equivalence queries against an RFC 7539 reference; counterexamples replayed natively',
   text='Bounded solver-decided equivalence: for each double-round count 0..=10 and each build (std run-time dispatch with the CPU-feature word symbolic, no_simd, '
        '5 no-std target-feature builds in thorough), refill4 / 4 x refill / refill are executed symbolically from the optimised IR with key, stream id and 64-bit counter '
        'symbolic and proved equal to the reference block function at counters c..c+3 and final state c+4 (c+1); the overflow-checked build is explored for reachable panics.',
   note=TB, design='§6-C14'),
}
NA_DEFAULT = 'check not built yet (work in progress; see DESIGN.md)'
NA = {}

m = {
 'version': 1,
 'setup_cmd': 'cd /verif && ./setup.sh',
 'hooks': {'guard': 'cryptocorrosion_verif', 'enable': 'RUSTFLAGS="--cfg cryptocorrosion_verif" (set by llsym/build.py for every harness build)',
           'baseline_off_cmd': 'cd /repo && cargo test --workspace --no-fail-fast --offline', 'source_commits': [], 'add_only': True},
 'engines': [
   {'name': 'llsym', 'path': 'llsym/', 'serves_properties': sorted(CHECKS), 'kind_free_text': 'symbolic executor for the optimised LLVM IR rustc emits for /repo (all backend arms, dispatchers) over a canonicalising bit-vector term layer; z3 decides residual queries; native replay of models'},
 ],
 'checks': [], 'not_applicable': [],
 'notes': 'exit codes: 0 held, 1 VIOLATION (natively replayed), 2 inconclusive/tool error. known_findings.json lists recorded and fixed defects.',
}
for p in props:
    i = p['id']
    c = CHECKS.get(i)
    if c is None:
        m['not_applicable'].append({'property_id': i, 'reason': NA.get(i, NA_DEFAULT)})
        continue
    m['checks'].append({
        'property_id': i, 'quick_cmd': './check %s --tier quick' % i, 'thorough_cmd': './check %s --tier thorough' % i,
        'evidence_file': '/verif/evidence/%s.json' % i, 'replay_cmd_template': './check %s --replay {path}' % i, 'engine': c.get('engine', 'llsym'),
        'level_claimed': {'category': c.get('level', 'model_checking'), 'text': c['text'], 'design_ref': c['design']},
        'level_note': c['note'], 'technique': c['technique']})
json.dump(m, open(os.path.join(V, 'MANIFEST.json'), 'w'), indent=1)
import jsonschema
jsonschema.validate(m, json.load(open('/root/.vp/MANIFEST.schema.json')))
print('MANIFEST ok:', len(m['checks']), 'checks,', len(m['not_applicable']), 'not applicable')
