# llsym: shared machinery for the per-property checks: obligations, solver discharge, canaries, findings, evidence.
import json
import os
import random
import sys
import time
import hashlib

from . import terms as T

VERIF = os.path.dirname(os.path.dirname(os.path.abspath(__file__)))


def std_detect_cache(mode='initialised'):
    """Model of std_detect's feature cache. The dispatchers load CACHE[0] atomically and test single bits;
    bit 63 marks 'initialised'. mode 'initialised': word = symbolic 63 feature bits | 1<<63.
    mode 'cold': word = 0, so detect_and_initialize() is called (returns a symbolic i128 feature set)."""
    def mk(ex, name, g):
        o = ex.new_obj(24, 8, 'std_detect::CACHE', 'global', True)
        if mode == 'cold':
            ex.write_bits(o, 0, T.const(0, 64))
        elif isinstance(mode, int):
            ex.write_bits(o, 0, T.const(mode | (1 << 63), 64))     # a concrete feature set (single arm)
        else:
            ex.write_bits(o, 0, T.concat([T.var('cpu', 63), T.const(1, 1)]))
        ex.write_bits(o, 8, T.const(1 << 63, 64))
        ex.write_bits(o, 16, T.const(1 << 63, 64))
        return o
    return mk


def detect_and_initialize(ex, name, args):
    # returns the feature set as i128; same variable as the cache word so both routes agree
    return T.concat([T.var('cpu', 63), T.const(0, 65)])


STATS = {}
FULL_QUERY_NODE_LIMIT = 400
BUILD_BUDGET_S = 45
USE_CONE_MERGE = False   # substitution + rebuild is slower than the lockstep walk on heavily fragmented (ARX) terms
_CONGR_CACHE = {}

FEATURE_BITS = {  # std_detect x86 Feature enum bit positions as observed in the IR of this toolchain (validated in setup)
}


class Obligation:
    __slots__ = ('name', 'status', 'n_pairs', 'n_identical', 'solver_s', 'detail', 'model', 'key')

    def __init__(self, name):
        self.name = name
        self.status = None     # 'identical' | 'unsat' | 'sat' | 'unknown' | 'panic' ...
        self.n_pairs = 0
        self.n_identical = 0
        self.solver_s = 0.0
        self.detail = ''
        self.model = None
        self.key = None


def pc_z3(pc):
    import z3
    return [(T.z3val(c) == (1 if v else 0)) for c, v in pc]


def solve_neq(pairs, pc=(), timeout_s=120, assumptions=None, congruence=True):
    """is there an assignment satisfying pc with some got != exp ?  returns (status, model dict or None, seconds)"""
    import z3
    diff = [(g, e) for g, e in pairs if g != e]
    t0 = time.time()
    if not diff:
        return 'identical', None, 0.0
    if congruence and not assumptions:
        from . import congr
        # the CPU-feature bits of the path condition only select the arm; equalities are proved without them, so one
        # proof serves every arm that produced the same terms
        pc_core = tuple((c, v) for c, v in pc if T.support([c])[0] != {'cpu'})
        ck = (tuple(diff), pc_core)
        walk_failed_before = False
        if ck in _CONGR_CACHE:
            STATS['congruence_cached'] = STATS.get('congruence_cached', 0) + 1
            if _CONGR_CACHE[ck]:
                return 'unsat', None, time.time() - t0
            # the (budgeted) walk failed for another arm with the same terms: do not repeat it, but the bounded full query below
            # may still decide (it can answer sat, and its model must select THIS arm)
            walk_failed_before = True
        # sat side first: the strengthened query "inputs = corner / seed-derived constants" (any model of it is a model
        # of the original query); a differing crypto core differs on almost every input, a boundary slip on a corner
        model = congr.simulate_difference(diff, pc)
        if model is not None:
            STATS['sat_by_simulation'] = STATS.get('sat_by_simulation', 0) + 1
            return 'sat', model, time.time() - t0
        if not walk_failed_before:
            # small-cone merging + substitution: makes structurally parallel DAGs syntactically identical
            def _solve(ps, pcx):
                return solve_neq(ps, pcx, 30, None, False)[0]
            newpairs, nmerged, nq = diff, 0, 0
            if USE_CONE_MERGE:
                try:
                    newpairs, nmerged, nq = congr.merge_small_cones(diff, pc, solve=_solve)
                except RecursionError:
                    newpairs, nmerged, nq = diff, 0, 0
            if nmerged:
                STATS['cone_merges'] = STATS.get('cone_merges', 0) + nmerged
                rest = [(g, e) for g, e in newpairs if g != e]
                if not rest:
                    _CONGR_CACHE[ck] = True
                    return 'unsat', None, time.time() - t0
                diff2 = rest
            else:
                diff2 = diff
            ok, residual = congr.reduce_pairs(diff2, 0, pc)
            if ok:
                if not residual:
                    _CONGR_CACHE[ck] = True
                    return 'unsat', None, time.time() - t0
                # first without the path condition (stronger, and then valid for every path with the same terms)
                st, model, _ = solve_neq(residual, (), min(timeout_s, 60), None, False)
                if st in ('unsat', 'identical'):
                    _CONGR_CACHE[ck] = True
                elif pc_core:
                    st, model, _ = solve_neq(residual, pc_core, min(timeout_s, 60), None, False)
                    if st in ('unsat', 'identical'):
                        _CONGR_CACHE[ck] = True
                if st not in ('unsat', 'identical') and len(pc_core) != len(pc):
                    st, model, _ = solve_neq(residual, pc, min(timeout_s, 60), None, False)
                if st in ('unsat', 'identical'):
                    STATS['congruence'] = STATS.get('congruence', 0) + 1
                    STATS['residuals'] = STATS.get('residuals', 0) + len(residual)
                    return 'unsat', None, time.time() - t0
        # remember the failure: the other arms that produced the same terms need not repeat the (budgeted) walk
        _CONGR_CACHE[ck] = False
    if not congruence:
        _names, _n = T.support([x for p in diff for x in p])
        if _n > 4 * FULL_QUERY_NODE_LIMIT:
            return 'unknown', None, time.time() - t0
    if congruence:
        # guard: a monolithic miter over a deep cryptographic DAG is known not to finish (measured); do not even build it
        _names, _n = T.support([x for p in diff for x in p])
        if _n > FULL_QUERY_NODE_LIMIT:
            STATS['full_query_skipped'] = STATS.get('full_query_skipped', 0) + 1
            return 'unknown', None, time.time() - t0
    if os.environ.get('VERIF_DEBUG') and congruence:
        print('DEBUG full query: pairs=%d pc=%s' % (len(diff), [(T.show(c)[:60], v) for c, v in pc]), flush=True)
    s = z3.Solver()
    s.set('timeout', int(timeout_s * 1000))
    for a in pc_z3(pc):
        s.add(a)
    if assumptions:
        for name, w, val in assumptions:
            s.add(z3.BitVec(name, w) == val)
    disj = []
    tb = time.time()
    for g, e in diff:
        disj.append(T.z3val(g) != T.z3val(e))
        if time.time() - tb > BUILD_BUDGET_S:
            # building the formula alone exceeds the budget: the query is out of reach, do not pretend otherwise
            STATS['query_build_aborted'] = STATS.get('query_build_aborted', 0) + 1
            return 'unknown', None, time.time() - t0
    s.add(z3.Or(*disj))
    r = z3_check(s, timeout_s)
    dt = time.time() - t0
    if r == z3.unsat:
        return 'unsat', None, dt
    if r == z3.sat:
        m = s.model()
        md = {}
        for d in m.decls():
            if d.arity() == 0:
                try:
                    md[d.name()] = m[d].as_long()
                except Exception:
                    pass
        return 'sat', md, dt
    return 'unknown', None, dt


def z3_check(s, timeout_s):
    """s.check() under z3's own timeout. (A watchdog calling ctx.interrupt() was tried for the cases where z3 overruns its
    timeout: in this z3 build an interrupt during rewriting aborts the process with an internal assertion, so runaway queries
    are bounded by the per-task process timeout of `parallel` instead.)"""
    import z3
    try:
        return s.check()
    except z3.Z3Exception:
        return z3.unknown


_VW_SEEN = {}


def _collect_var_widths(j, widths):
    stack = [j]
    seen = set()
    while stack:
        k = stack.pop()
        if k in seen:
            continue
        seen.add(k)
        op, w, args = T.nodes[k]
        if op == 'var':
            widths[args] = w
        else:
            stack.extend(T.node_deps(k))


def pc_feasible(pc, timeout_s=60):
    import z3
    if not pc:
        return 'sat', {}
    # fast path: most feasible paths are satisfied by some corner / random vector (no solver call)
    names, _n = T.support([c for c, v in pc])
    widths = {}
    for c, v in pc:
        for j in T.value_deps(c):
            _collect_var_widths(j, widths)
    from . import congr
    rng = random.Random(len(pc))
    for asg in congr.corner_assignments(widths, rng, nrand=1)[:10]:
        ev = T.Evaluator(asg)
        try:
            if all(ev.val(c) == (1 if v else 0) for c, v in pc):
                return 'sat', dict(asg)
        except Exception:
            break
    s = z3.Solver()
    s.set('timeout', int(timeout_s * 1000))
    tb = time.time()
    for a in pc_z3(pc):
        s.add(a)
    if time.time() - tb > timeout_s:
        return 'unknown', None
    r = z3_check(s, timeout_s)
    if r == z3.sat:
        m = s.model()
        md = {}
        for d in m.decls():
            if d.arity() == 0:
                try:
                    md[d.name()] = m[d].as_long()
                except Exception:
                    pass
        return 'sat', md
    return ('unsat' if r == z3.unsat else 'unknown'), None


def random_assignment(names_widths, rng):
    return {n: rng.getrandbits(w) for n, w in names_widths}


def concrete_differs(pairs, pc, varwidths, rng, tries=4):
    """canary helper: find an assignment (seed-derived constants = strengthened query) under which pc holds and some
    pair differs; returns the assignment or None"""
    for _ in range(tries):
        asg = random_assignment(varwidths, rng)
        ev = T.Evaluator(asg)
        if all(ev.val(c) == (1 if v else 0) for c, v in pc):
            for g, e in pairs:
                if ev.val(g) != ev.val(e):
                    return asg
    return None


def vars_of(vals):
    names, n = T.support(vals)
    out = []
    for nm in sorted(names):
        i = T._tab.get(('var', None, nm))
        out.append(nm)
    return out


def var_widths(vals):
    seen = set()
    out = {}
    stack = []
    for v in vals:
        stack.extend(T.value_deps(v))
    while stack:
        j = stack.pop()
        if j in seen:
            continue
        seen.add(j)
        op, w, args = T.nodes[j]
        if op == 'var':
            out[args] = w
        else:
            stack.extend(T.node_deps(j))
    return out


class Run:
    """one run of one property's check"""

    def __init__(self, pid, tier=None, seed=None, level='model_checking'):
        self.pid = pid
        self.tier = tier or os.environ.get('VERIF_TIER', 'quick')
        if self.tier not in ('quick', 'thorough'):
            self.tier = 'quick'
        self.seed = int(seed if seed is not None else os.environ.get('VERIF_SEED', '0') or 0)
        self.rng = random.Random(self.seed)
        self.level = level
        self.t0 = time.time()
        self.obls = []
        self.violations = []     # (key, what, replay path)
        self.known_hits = []
        self.inconclusive = []
        self.functions = set()
        self.builds = {}
        self.samples = []
        self.canaries = []       # (name, bool detected)
        self.assumptions = []
        self.bounds = {}
        self.extra = {}
        self.solver_s = 0.0
        self.exec_s = 0.0
        self.known = load_known()

    # ------------------------------------------------------------------ recording
    def note_functions(self, names):
        for n in names:
            self.functions.add(n)

    def add(self, ob):
        self.obls.append(ob)
        self.solver_s += ob.solver_s
        return ob

    def equal_spec(self, name, got, spec_fn, pc=(), timeout_s=120, key=None, split=32, impl_fn=None):
        """like equal(), but the reference side is given as a function that rebuilds it: when the two sides are not
        syntactically identical, small-cone equalities (counter arithmetic) are discovered by simulation, proved by the
        solver and installed as construction-time aliases; the reference is then rebuilt and usually becomes identical
        to the implementation's term, so the big DAG never reaches the solver"""
        def mkpairs(exp, g=None):
            g = got if g is None else g
            w = T.width(g)
            return [(T.extract(g, i, min(split, w - i)), T.extract(exp, i, min(split, w - i))) for i in range(0, w, split)]
        pc_core = tuple((c, v) for c, v in pc if T.support([c])[0] != {'cpu'})
        if len(pc_core) >= 2:
            # several data-dependent branch decisions: the combination may be infeasible (e.g. two consecutive carries)
            fk = ('feas', pc_core)
            if fk not in _CONGR_CACHE:
                _CONGR_CACHE[fk] = pc_feasible(pc_core, 20)[0]
            if _CONGR_CACHE[fk] == 'unsat':
                ob = Obligation(name)
                ob.key = key or name
                ob.n_pairs = 1
                ob.status = 'ok'
                ob.detail = 'path infeasible'
                return self.add(ob)
        ck = ('spec', got, pc_core)
        if ck in _CONGR_CACHE:
            ob = Obligation(name)
            ob.key = key or name
            ob.n_pairs, ob.n_identical, ob.status, ob.detail = _CONGR_CACHE[ck]
            return self.add(ob)
        # path-condition rewriting: a branch condition that is a term node is a known constant on this path
        pc_alias = {}
        for c, v in pc:
            nid = T.single_node(c)
            if nid is not None and T.nodes[nid][0] != 'var':
                pc_alias[nid] = T.const(1 if v else 0, 1)
            elif len(c) == 1 and len(c[0][0]) == 1 and c[0][1] == 1 and c[0][0][0][1] == 0 and T.nodes[c[0][0][0][0]][1] == 1 \
                    and T.nodes[c[0][0][0][0]][0] != 'var':
                pc_alias[c[0][0][0][0]] = T.const(0 if v else 1, 1)
        if pc_alias:
            inner_spec = spec_fn

            def spec_fn():
                saved = dict(T.ALIAS_NODE)
                T.ALIAS_NODE.update(pc_alias)
                try:
                    return inner_spec()
                finally:
                    for k in pc_alias:
                        if k in saved:
                            T.ALIAS_NODE[k] = saved[k]
                        else:
                            T.ALIAS_NODE.pop(k, None)
        exp = spec_fn()
        pairs = mkpairs(exp)
        if all(g == e for g, e in pairs):
            return self.equal(name, pairs, pc, timeout_s, key)
        from . import congr
        diff = [(g, e) for g, e in pairs if g != e]
        t0 = time.time()
        # a wrong core makes nearly every output word differ; when most words are already syntactically identical and the DAG is large
        # the difference is almost certainly counter / length arithmetic: go to the small-cone lemmas first (their refuters give
        # targeted candidates) and leave the costly whole-DAG simulation to the end (Run.equal below) if they do not settle it
        large = T.support([x for pr in diff for x in pr])[1] > 1500
        model = None if (large and 4 * len(diff) <= len(pairs)) else congr.simulate_difference(diff, pc)
        if model is None:
            def _solve(ps, pcx):
                r_ = solve_neq(ps, pcx, 30, None, False)
                return r_[0], r_[1]
            if os.environ.get('VERIF_DEBUG'):
                print('DEBUG equal_spec %s: not identical (%d/%d), simulate took %.1fs' % (name, sum(1 for g, e in pairs if g == e), len(pairs), time.time() - t0), flush=True)
            na, sa, nq = {}, {}, 0
            cur = diff
            # alias discovery is iterated: installing a lemma changes the shape of the rebuilt terms (e.g. a counter whose upper
            # half is known to be zero), which can expose the next small-cone equality
            for rnd in range(4):
                na1, sa1, nq1 = congr.discover_aliases(cur, pc_core if len(pc_core) != len(pc) else pc, solve=_solve, both_sides=impl_fn is not None)
                nq += nq1
                na1 = {k: v for k, v in na1.items() if k not in na}
                # a model that refutes a local lemma (e.g. "the impl's next counter == the reference's next counter") is a prime
                # candidate for a global counterexample: evaluate the whole obligation under it
                names_, _ = T.support([x for pr in pairs for x in pr] + [c for c, v in pc])
                tried_ = _CONGR_CACHE.setdefault(('refuters-tried', ck), set())
                for asg in list(congr.REFUTERS)[:(3 if T.support([x for pr in pairs for x in pr])[1] > 1500 else 8)][:(2 if rnd else 3)]:
                    full_ = {n_: asg.get(n_, 0) for n_ in names_}
                    fk_ = tuple(sorted((k_, v_) for k_, v_ in full_.items() if k_ != 'cpu'))
                    if fk_ in tried_:
                        continue        # same data under another arm / round: the whole-DAG evaluation would give the same values
                    tried_.add(fk_)
                    ev_ = T.Evaluator(full_)
                    if all(ev_.val(c) == (1 if v else 0) for c, v in pc) and any(ev_.val(g) != ev_.val(e) for g, e in pairs):
                        ob = Obligation(name)
                        ob.key = key or name
                        ob.n_pairs = len(pairs)
                        ob.n_identical = sum(1 for g, e in pairs if g == e)
                        ob.status = 'sat'
                        ob.model = full_
                        ob.solver_s = time.time() - t0
                        ob.detail = 'counterexample of a refuted small-cone lemma, evaluated on the whole obligation'
                        STATS['sat_by_lemma_refuter'] = STATS.get('sat_by_lemma_refuter', 0) + 1
                        return self.add(ob)
                if os.environ.get('VERIF_DEBUG'):
                    print('DEBUG round %d: discovered %d node + %d slice aliases with %d queries, %.1fs' % (rnd, len(na1), sum(len(v) for v in sa1.values()), nq1, time.time() - t0), flush=True)
                    for k_, v_ in na1.items():
                        print('   alias node', k_, str(T.nodes[k_])[:120], '->', T.show(v_)[:120])
                    for k_, v_ in sa1.items():
                        print('   alias slice', k_, str(T.nodes[k_])[:120], '->', [(a_, m_, T.show(x_)[:80]) for a_, m_, x_ in v_])
                if not na1 and not sa1:
                    break
                na.update(na1)
                for k, v in sa1.items():
                    if k not in na:
                        sa.setdefault(k, []).extend(x for x in v if x not in sa.get(k, []))
                T.ALIAS_NODE.update(na)
                for k, v in sa.items():
                    T.ALIAS_SLICE.setdefault(k, []).extend(v)
                got2 = None
                rebuilt = True
                try:
                    exp2 = spec_fn()
                    if impl_fn is not None:
                        got2 = impl_fn()
                except Exception as e_:
                    from .execu import Inconclusive as _Inc
                    if not isinstance(e_, _Inc):
                        raise
                    # the re-execution could not follow the recorded path under the installed lemmas: keep the terms of the last
                    # consistent round and let the bounded query decide
                    STATS['alias_rebuild_abandoned'] = STATS.get('alias_rebuild_abandoned', 0) + 1
                    rebuilt = False
                finally:
                    T.ALIAS_NODE.clear()
                    T.ALIAS_SLICE.clear()
                if not rebuilt:
                    break
                pairs2 = mkpairs(exp2, got2)
                STATS['alias_rebuilds'] = STATS.get('alias_rebuilds', 0) + 1
                if os.environ.get('VERIF_DEBUG'):
                    print('DEBUG alias rebuild: lemmas=%d+%d queries=%d identical %d/%d  t=%.1fs' % (len(na), sum(len(v) for v in sa.values()), nq,
                          sum(1 for g, e in pairs2 if g == e), len(pairs2), time.time() - t0), flush=True)
                if all(g == e for g, e in pairs2):
                    ob = Obligation(name)
                    ob.key = key or name
                    ob.n_pairs = len(pairs)
                    ob.n_identical = sum(1 for g, e in pairs if g == e)
                    ob.status = 'unsat'
                    ob.solver_s = time.time() - t0
                    ob.detail = 'by %d proved small-cone lemmas + reconstruction' % (len(na) + sum(len(v) for v in sa.values()))
                    _CONGR_CACHE[ck] = (ob.n_pairs, ob.n_identical, 'unsat', ob.detail + ' (same terms as another arm)')
                    if len(self.samples) < 6:
                        self.samples.append({'obligation': name, 'pairs': len(pairs), 'identical': ob.n_identical, 'status': 'unsat', 'how': ob.detail})
                    return self.add(ob)
                pairs = pairs2
                cur = [(g, e) for g, e in pairs2 if g != e]
        return self.equal(name, pairs, pc, timeout_s, key)

    def equal(self, name, pairs, pc=(), timeout_s=120, key=None):
        """obligation: under pc every got == exp. Returns Obligation (status identical/unsat/sat/unknown)"""
        pairs = [(g, e) for g, e in pairs if T.width(g) or T.width(e)]
        ob = Obligation(name)
        ob.key = key or name
        ob.n_pairs = len(pairs)
        ob.n_identical = sum(1 for g, e in pairs if g == e)
        st, model, dt = solve_neq(pairs, pc, timeout_s)
        ob.status = st
        ob.solver_s = dt
        ob.model = model
        if len(self.samples) < 6:
            g, e = pairs[0] if pairs else ((), ())
            self.samples.append({'obligation': name, 'pairs': len(pairs), 'identical': ob.n_identical, 'status': st,
                                 'first_pair_impl': T.show(g)[:160], 'path_condition': [(T.show(c)[:80], v) for c, v in pc][:6]})
        return self.add(ob)

    def canary(self, name, detected):
        self.canaries.append((name, bool(detected)))
        if not detected:
            self.inconclusive.append('canary not detected: ' + name)

    def violation(self, key, what, replay=None):
        """a confirmed (replayed) violation; known findings are matched by key"""
        for k in self.known:
            if k.get('property') == self.pid and k.get('status', 'known') == 'known' and k.get('key') == key:
                if key not in [x[0] for x in self.known_hits]:
                    self.known_hits.append((key, k.get('what', what)))
                return 'known'
        if key not in [v[0] for v in self.violations]:
            self.violations.append((key, what, replay))
        return 'new'

    def write_replay(self, key, payload):
        d = os.path.join(VERIF, 'replays')
        os.makedirs(d, exist_ok=True)
        h = hashlib.sha256(key.encode()).hexdigest()[:10]
        p = os.path.join(d, '%s-%s.json' % (self.pid, h))
        with open(p, 'w') as f:
            json.dump(payload, f, indent=1, default=str)
        return p

    # ------------------------------------------------------------------ parallel sub-runs
    def export(self):
        return {'obls': [(o.name, o.status, o.n_pairs, o.n_identical, o.solver_s, o.detail, o.key) for o in self.obls],
                'violations': self.violations, 'known_hits': self.known_hits, 'inconclusive': self.inconclusive,
                'functions': sorted(self.functions), 'builds': self.builds, 'samples': self.samples, 'canaries': self.canaries,
                'exec_s': self.exec_s, 'extra': self.extra, 'stats': dict(STATS)}

    def absorb(self, d):
        for name, status, n_pairs, n_ident, solver_s, detail, key in d['obls']:
            o = Obligation(name)
            o.status, o.n_pairs, o.n_identical, o.solver_s, o.detail, o.key = status, n_pairs, n_ident, solver_s, detail, key
            self.add(o)
        for v in d['violations']:
            if v[0] not in [x[0] for x in self.violations]:
                self.violations.append(tuple(v))
        for k in d['known_hits']:
            if k[0] not in [x[0] for x in self.known_hits]:
                self.known_hits.append(tuple(k))
        self.inconclusive.extend(d['inconclusive'])
        self.functions.update(d['functions'])
        self.builds.update(d['builds'])
        for smp in d['samples']:
            if len(self.samples) < 8:
                self.samples.append(smp)
        self.canaries.extend(tuple(c) for c in d['canaries'])
        self.exec_s += d['exec_s']
        for k, v in d['extra'].items():
            if isinstance(v, list) and isinstance(self.extra.get(k, []), list):
                self.extra[k] = (self.extra.get(k, []) + v)[:40]
            elif isinstance(v, (int, float)) and isinstance(self.extra.get(k, 0), (int, float)):
                self.extra[k] = self.extra.get(k, 0) + v
            else:
                self.extra.setdefault(k, v)

    # ------------------------------------------------------------------ finish
    def finish(self):
        wall = time.time() - self.t0
        n = len(self.obls)
        st = {}
        for o in self.obls:
            st[o.status] = st.get(o.status, 0) + 1
        discharged = sum(1 for o in self.obls if o.status in ('identical', 'unsat', 'ok'))
        nontrivial = len({o.name for o in self.obls if o.status in ('identical', 'unsat', 'ok') and o.n_pairs > 0})
        unknown = [o.name for o in self.obls if o.status in ('unknown',)]
        if unknown:
            self.inconclusive.append('solver gave no verdict for: ' + ', '.join(unknown[:5]))
        cov = {
            'evaluations': n,
            'distinct_nontrivial': nontrivial,
            'rule': 'one obligation = one solver query "path condition AND impl != reference" over symbolic inputs, '
                    'named by (entry, build, path/arm, bound point); non-trivial = formula contains symbolic variables; '
                    'identical = both sides are the same canonical term (query syntactically false), unsat = z3 verdict',
            'obligations': n,
            'discharged': discharged,
            'status_counts': st,
            'states': max(1, n),
            'transitions': max(1, sum(o.n_pairs for o in self.obls)),
            'traces_validated_against_impl': self.extra.get('kats_through_encoding', 0),
            'samples': self.samples[:8] or [{'note': 'no obligations'}],
            'functions_encoded': sorted(self.functions)[:400],
            'builds': self.builds,
            'bounds': self.bounds,
            'canaries': [{'name': a, 'detected': b} for a, b in self.canaries],
            'solver_s': round(self.solver_s, 3),
            'exec_s': round(self.exec_s, 3),
            'known_findings_hit': [{'key': k, 'what': w} for k, w in self.known_hits],
            'inconclusive': self.inconclusive[:20],
            'exhaustive': False,
        }
        cov.update(self.extra)
        ev = {
            'property_id': self.pid, 'tier': self.tier, 'seed': self.seed, 'level': self.level,
            'coverage': cov, 'assumptions': self.assumptions, 'wall_s': round(wall, 2),
            'violations': len(self.violations),
        }
        d = os.path.join(VERIF, 'evidence')
        os.makedirs(d, exist_ok=True)
        with open(os.path.join(d, self.pid + '.json'), 'w') as f:
            json.dump(ev, f, indent=1, default=str)
        for k, w in self.known_hits:
            print('KNOWN-FINDING: property=%s %s [%s]' % (self.pid, w, k))
        for k, w, rp in self.violations:
            print('VIOLATION property=%s replay=%s' % (self.pid, rp))
            print('  what: %s [%s]' % (w, k))
        print('%s tier=%s obligations=%d discharged=%d %s canaries=%d/%d wall=%.1fs solver=%.1fs' % (
            self.pid, self.tier, n, discharged, st, sum(1 for _, b in self.canaries if b), len(self.canaries), wall, self.solver_s))
        if self.violations:
            return 1
        if self.inconclusive:
            for x in self.inconclusive[:10]:
                print('INCONCLUSIVE: ' + x)
            return 2
        return 0


def load_known():
    p = os.path.join(VERIF, 'known_findings.json')
    if not os.path.exists(p):
        return []
    with open(p) as f:
        return json.load(f).get('findings', [])


def _worker(job):
    fn, pid, tier, seed, task, deadline = job
    import traceback
    sub = Run(pid, tier, seed)
    t_start = time.time()
    if deadline is not None and t_start > deadline:
        sub.extra['tasks_skipped_budget'] = 1
        return sub.export()
    T.reset()
    _CONGR_CACHE.clear()
    from . import congr as _congr
    _congr._PC_MODEL_CACHE.clear()
    try:
        fn(sub, task)
    except Exception as e:
        from .ir import Unsupported
        from .execu import Inconclusive
        from .build import BuildError
        if isinstance(e, BuildError):
            sub.inconclusive.append('build error in task %r: %s\n%s' % (task, e, e.log[-1500:]))
        else:
            sub.inconclusive.append('%s in task %r: %s' % (type(e).__name__, task, str(e)[:500]))
            if not isinstance(e, (Unsupported, Inconclusive)):
                sub.inconclusive.append(traceback.format_exc()[-1500:])
    dt = time.time() - t_start
    if dt > 60:
        sub.extra['slow_tasks'] = ['%r: %.0fs' % (task if not isinstance(task, list) else task[0], dt)]
        print('SLOW task %r: %.0fs' % (task if not isinstance(task, list) else task[:1], dt), flush=True)
    return sub.export()


def parallel(run, fn, tasks, nproc=None):
    """run fn(subrun, task) for every task in worker processes and merge the results into run.
    Thorough tier: a per-phase time budget (VERIF_PHASE_BUDGET_S, default 900 s) bounds the exploration - tasks are taken in a
    seeded random order and tasks not started when the budget is spent are skipped and COUNTED in the evidence
    (tasks_skipped_budget); the quick tier always runs everything."""
    import multiprocessing as mp
    if nproc is None:
        nproc = int(os.environ.get('VERIF_JOBS', '0') or 0) or min(14, os.cpu_count() or 1)
    deadline = None
    tasks = list(tasks)
    if run.tier == 'thorough':
        budget = float(os.environ.get('VERIF_PHASE_BUDGET_S', '900') or 900)
        deadline = time.time() + budget
        random.Random(run.seed * 7919 + len(tasks)).shuffle(tasks)
    jobs = [(fn, run.pid, run.tier, run.seed, t, deadline) for t in tasks]
    run.extra['tasks_total'] = run.extra.get('tasks_total', 0) + len(jobs)
    if nproc <= 1 or len(jobs) <= 1:
        for j in jobs:
            run.absorb(_worker(j))
        return
    # one forked process per task (the parent holds the parsed IR, fork is copy-on-write): a crashing or runaway task is
    # attributed exactly and cannot stall the pool; VERIF_TASK_TIMEOUT_S bounds every task
    from multiprocessing import connection as mpc
    ctx = mp.get_context('fork')
    task_timeout = float(os.environ.get('VERIF_TASK_TIMEOUT_S', '1500') or 1500)
    pending = list(jobs)
    running = {}
    while pending or running:
        while pending and len(running) < nproc:
            job = pending.pop(0)
            if deadline is not None and time.time() > deadline:
                run.extra['tasks_skipped_budget'] = run.extra.get('tasks_skipped_budget', 0) + 1
                continue
            pr, pw = ctx.Pipe(duplex=False)
            p = ctx.Process(target=_child, args=(job, pw))
            p.start()
            pw.close()
            running[p] = (pr, job, time.time())
        if not running:
            continue
        ready = mpc.wait([c for c, _, _ in running.values()], timeout=1.0)
        for p, (c, job, ts) in list(running.items()):
            if c in ready:
                try:
                    d = c.recv()
                except (EOFError, OSError):
                    d = None
                c.close()
                p.join(10)
                del running[p]
                if d is None:
                    run.inconclusive.append('worker process died (exit code %s) in task %r' % (p.exitcode, job[4] if not isinstance(job[4], list) else job[4][:1]))
                else:
                    run.absorb(d)
            elif time.time() - ts > task_timeout:
                p.kill()
                p.join(10)
                c.close()
                del running[p]
                run.inconclusive.append('task %r exceeded %.0f s and was stopped' % (job[4] if not isinstance(job[4], list) else job[4][:1], task_timeout))


def _child(job, conn):
    try:
        d = _worker(job)
        conn.send(d)
    finally:
        conn.close()
        sys.stdout.flush()
        os._exit(0)
