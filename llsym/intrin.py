# llsym: models of LLVM and x86 intrinsics (values: int -> term, vector -> list of lane terms)
from . import terms as T
from .ir import Unsupported


def _cint(v, what):
    if not T.is_const(v):
        from .execu import Inconclusive
        raise Inconclusive('symbolic ' + what)
    return T.cval(v)


def lanes(v, w):
    n = T.width(v) // w
    return [T.extract(v, i * w, w) for i in range(n)]


# AES S-box as an uninterpreted 8->8 function "sbox8"; a concrete table is used for evaluation / replay
def _aes_sbox_table():
    # standard construction: multiplicative inverse in GF(2^8) + affine map
    p = q = 1
    sbox = [0] * 256
    while True:
        p = p ^ ((p << 1) & 0xff) ^ (0x1b if p & 0x80 else 0)
        q ^= q << 1
        q ^= q << 2
        q ^= q << 4
        q &= 0xff
        if q & 0x80:
            q ^= 0x09
        x = q ^ ((q << 1) | (q >> 7)) & 0xff ^ ((q << 2) | (q >> 6)) & 0xff ^ ((q << 3) | (q >> 5)) & 0xff ^ ((q << 4) | (q >> 4)) & 0xff
        sbox[p] = (x ^ 0x63) & 0xff
        if p == 1:
            break
    sbox[0] = 0x63
    return sbox


AES_SBOX = _aes_sbox_table()


def sbox8(b):
    if T.is_const(b):
        return T.const(AES_SBOX[T.cval(b)], 8)
    return T.uf('sbox8', 8, (b,))


SHIFTROWS = [0, 5, 10, 15, 4, 9, 14, 3, 8, 13, 2, 7, 12, 1, 6, 11]


def aesenclast(state, key):
    """state, key: lists of 16 byte terms (or 2 x i64): ShiftRows, SubBytes, AddRoundKey"""
    sb = [sbox8(state[SHIFTROWS[i]]) for i in range(16)]
    return [T.bxor(x, k) for x, k in zip(sb, key)]


def pshufb(a, m):
    out = []
    n = len(a)
    for i in range(n):
        mi = m[i]
        if T.is_const(mi):
            k = T.cval(mi)
            if k & 0x80:
                out.append(T.const(0, 8))
            else:
                lane = i // 16 * 16
                out.append(a[lane + (k & 15)])
        else:
            raise Unsupported('pshufb with symbolic mask')
    return out


def _sat_pack(x, w_in, w_out, signed_out):
    """saturating narrowing of a signed w_in-bit lane to w_out bits (PACKSS* / PACKUS*)"""
    sign = T.bit(x, w_in - 1)
    lo = T.extract(x, 0, w_out)
    if signed_out:
        hi = T.extract(x, w_out - 1, w_in - w_out + 1)
        fits = T.bor(T.eqz(hi), T.eqz(T.bnot(hi)))
        return T.ite(fits, lo, T.ite(sign, T.const(1 << (w_out - 1), w_out), T.const((1 << (w_out - 1)) - 1, w_out)))
    over = T.bxor(T.eqz(T.extract(x, w_out, w_in - w_out - 1)), T.const(1, 1))
    return T.ite(sign, T.const(0, w_out), T.ite(over, T.const((1 << w_out) - 1, w_out), lo))


_X86_PACK = {'llvm.x86.sse2.packsswb.128': (16, True), 'llvm.x86.sse2.packssdw.128': (32, True), 'llvm.x86.sse41.packusdw': (32, False),
             'llvm.x86.avx2.packsswb': (16, True), 'llvm.x86.avx2.packssdw': (32, True), 'llvm.x86.avx2.packuswb': (16, False), 'llvm.x86.avx2.packusdw': (32, False)}
_X86_SHIFT = {}
for _isa, _suf in (('sse2', ''), ('avx2', '')):
    for _k, _kn in (('l', 'psll'), ('r', 'psrl'), ('a', 'psra')):
        for _w, _wn in ((16, 'w'), (32, 'd'), (64, 'q')):
            if _k == 'a' and _w == 64:
                continue
            _X86_SHIFT['llvm.x86.%s.%s.%s' % (_isa, _kn, _wn)] = (_k, _w, False)
            _X86_SHIFT['llvm.x86.%s.%si.%s' % (_isa, _kn, _wn)] = (_k, _w, True)


def call(ex, name, args):
    if name.startswith('llvm.lifetime') or name.startswith('llvm.experimental.noalias') or name.startswith('llvm.dbg') \
            or name == 'llvm.x86.avx.vzeroupper' or name.startswith('llvm.prefetch') or name == 'llvm.x86.sse2.pause':
        return None
    if name == 'llvm.assume':
        c = args[0]
        if T.is_const(c):
            if T.cval(c) == 0:
                from .execu import Inconclusive
                raise Inconclusive('llvm.assume(false) reached')
        return None
    if name.startswith('llvm.fshl') or name.startswith('llvm.fshr'):
        a, b, s = args
        left = name.startswith('llvm.fshl')

        def one(x, y, k):
            w = T.width(x)
            k = _cint(k, 'funnel shift amount') % w
            cat = T.concat([y, x])  # y low, x high
            if left:
                return T.extract(cat, w - k, w) if k else x
            return T.extract(cat, k, w) if k else y
        if isinstance(a, list):
            return [one(x, y, k) for x, y, k in zip(a, b, s)]
        return one(a, b, s)
    if name.startswith('llvm.bswap'):
        a = args[0]
        if isinstance(a, list):
            return [T.bswap(x) for x in a]
        return T.bswap(a)
    if name.startswith('llvm.memcpy') or name.startswith('llvm.memmove'):
        n = _cint(args[2], 'memcpy length')
        if n == 0:
            return None
        od, offd = ex.access(args[0], n, 1, True)
        if od.kind == 'global':
            ex.global_store_log.add((od.name, False, ex.in_once > 0))
        os_, offs = ex.access(args[1], n, 1, False)
        data = [os_.data[offs + i] for i in range(n)]
        for i in range(n):
            b = data[i]
            if b is None:
                # copying uninitialised bytes keeps them uninitialised
                od.data[offd + i] = None
            else:
                od.data[offd + i] = b
        return None
    if name.startswith('llvm.memset'):
        n = _cint(args[2], 'memset length')
        if n == 0:
            return None
        od, offd = ex.access(args[0], n, 1, True)
        if od.kind == 'global':
            ex.global_store_log.add((od.name, False, ex.in_once > 0))
        b = args[1]
        for i in range(n):
            od.data[offd + i] = b
        return None
    if name.startswith('llvm.vector.reduce.'):
        opn = name.split('.')[3]
        a = args[0]
        r = a[0]
        for x in a[1:]:
            if opn == 'xor':
                r = T.bxor(r, x)
            elif opn == 'or':
                r = T.bor(r, x)
            elif opn == 'and':
                r = T.band(r, x)
            elif opn == 'add':
                r = T.add(r, x)
            else:
                raise Unsupported(name)
        return r
    for pre, fn in (('llvm.umin', lambda a, b: T.ite(T.ult(a, b), a, b)), ('llvm.umax', lambda a, b: T.ite(T.ult(a, b), b, a)),
                    ('llvm.smin', lambda a, b: T.ite(T.slt(a, b), a, b)), ('llvm.smax', lambda a, b: T.ite(T.slt(a, b), b, a))):
        if name.startswith(pre + '.'):
            a, b = args
            if isinstance(a, list):
                return [fn(x, y) for x, y in zip(a, b)]
            return fn(a, b)
    if name.startswith('llvm.uadd.with.overflow'):
        a, b = args
        r = T.add(a, b)
        return [r, T.ult(r, a)]
    if name.startswith('llvm.usub.with.overflow'):
        a, b = args
        return [T.sub(a, b), T.ult(a, b)]
    if name.startswith('llvm.sadd.with.overflow') or name.startswith('llvm.ssub.with.overflow'):
        a, b = args
        w = T.width(a)
        add = 'sadd' in name
        r = T.add(a, b) if add else T.sub(a, b)
        sa, sb, sr = T.bit(a, w - 1), T.bit(b, w - 1), T.bit(r, w - 1)
        if add:
            ov = T.and1(T.bxor(sa, sb, T.const(1, 1)), T.bxor(sa, sr))
        else:
            ov = T.and1(T.bxor(sa, sb), T.bxor(sa, sr))
        return [r, ov]
    if name.startswith('llvm.umul.with.overflow'):
        a, b = args
        w = T.width(a)
        if T.is_const(a) and T.is_const(b):
            p = T.cval(a) * T.cval(b)
            return [T.const(p, w), T.const(int(p >> w != 0), 1)]
        wide = T.mul(T.zext(a, 2 * w), T.zext(b, 2 * w))
        return [T.extract(wide, 0, w), T.bxor(T.eqz(T.extract(wide, w, w)), T.const(1, 1))]
    if name.startswith('llvm.usub.sat'):
        a, b = args
        return T.ite(T.ult(a, b), T.const(0, T.width(a)), T.sub(a, b))
    if name.startswith('llvm.uadd.sat'):
        a, b = args
        r = T.add(a, b)
        return T.ite(T.ult(r, a), T.const(-1, T.width(a)), r)
    if name.startswith('llvm.ctpop') or name.startswith('llvm.ctlz') or name.startswith('llvm.cttz'):
        a = args[0]
        w = T.width(a)
        x = _cint(a, name)
        if 'ctpop' in name:
            return T.const(bin(x).count('1'), w)
        if 'ctlz' in name:
            return T.const(w - x.bit_length(), w)
        return T.const((x & -x).bit_length() - 1 if x else w, w)
    if name.startswith('llvm.abs'):
        a = args[0]
        w = T.width(a)
        return T.ite(T.bit(a, w - 1), T.neg(a), a)
    if name.startswith('llvm.expect'):
        return args[0]
    if name.startswith('llvm.is.constant'):
        return T.const(0, 1)
    if name.startswith('llvm.threadlocal.address'):
        return args[0]        # one thread is executed: a thread-local is an ordinary global (the object is marked thread_local by the loader)
    if name.startswith('llvm.ptrmask'):
        raise Unsupported(name)
    if name.startswith('llvm.trap') or name == 'llvm.ubsantrap' or name == 'llvm.debugtrap':
        from .execu import Panic
        raise Panic('trap', 'llvm.trap')
    # ------------------------------------------------------------------ x86
    if name in ('llvm.x86.ssse3.pshuf.b.128', 'llvm.x86.avx2.pshuf.b'):
        return pshufb(args[0], args[1])
    if name == 'llvm.x86.aesni.aesenclast':
        st = T.concat(args[0])
        ky = T.concat(args[1])
        out = aesenclast(lanes(st, 8), lanes(ky, 8))
        return lanes(T.concat(out), 64)
    if name == 'llvm.x86.sse2.packuswb.128':
        a, b = args
        out = []
        for x in a + b:
            # unsigned saturate signed 16 -> u8
            neg = T.bit(x, 15)
            hi = T.bxor(T.eqz(T.extract(x, 8, 7)), T.const(1, 1))  # any of bits 8..14 set
            lo = T.extract(x, 0, 8)
            out.append(T.ite(neg, T.const(0, 8), T.ite(hi, T.const(255, 8), lo)))
        return out
    if name in ('llvm.x86.sse2.pmovmskb.128', 'llvm.x86.avx2.pmovmskb'):
        a = args[0]
        return T.zext(T.concat([T.bit(x, 7) for x in a]), 32)
    m_ = _X86_PACK.get(name)
    if m_ is not None:
        w_in, signed_out = m_
        a, b = args
        # 256-bit forms pack within each 128-bit lane
        per = 128 // w_in
        out = []
        for base in range(0, len(a), per):
            for src in (a, b):
                out += [_sat_pack(x, w_in, w_in // 2, signed_out) for x in src[base:base + per]]
        return out
    m_ = _X86_SHIFT.get(name)
    if m_ is not None:
        kind, w, imm = m_
        a, cnt = args
        if imm:
            c = T.zext(cnt, 64) if T.width(cnt) < 64 else cnt
        else:
            c = T.extract(T.concat(cnt), 0, 64)       # low 64 bits of the count vector
        if not T.is_const(c):
            raise Unsupported(name + ' with symbolic count')
        k = T.cval(c)
        out = []
        for x in a:
            if kind == 'l':
                out.append(T.shl(x, k) if k < w else T.const(0, w))
            elif kind == 'r':
                out.append(T.lshr(x, k) if k < w else T.const(0, w))
            else:
                out.append(T.ashr(x, min(k, w - 1)))
        return out
    if name in ('llvm.x86.sse2.pmadd.wd', 'llvm.x86.avx2.pmadd.wd'):
        a, b = args
        out = []
        for i in range(0, len(a), 2):
            out.append(T.add(T.mul(T.sext(a[i], 32), T.sext(b[i], 32)), T.mul(T.sext(a[i + 1], 32), T.sext(b[i + 1], 32))))
        return out
    if name in ('llvm.x86.sse2.pmulh.w', 'llvm.x86.avx2.pmulh.w', 'llvm.x86.sse2.pmulhu.w', 'llvm.x86.avx2.pmulhu.w'):
        ext = T.zext if 'pmulhu' in name else T.sext
        return [T.extract(T.mul(ext(x, 32), ext(y, 32)), 16, 16) for x, y in zip(*args)]
    if name in ('llvm.x86.sse2.psad.bw', 'llvm.x86.avx2.psad.bw'):
        a, b = args
        out = []
        for base in range(0, len(a), 8):
            acc = T.const(0, 64)
            for x, y in zip(a[base:base + 8], b[base:base + 8]):
                d = T.ite(T.ult(x, y), T.sub(y, x), T.sub(x, y))
                acc = T.add(acc, T.zext(d, 64))
            out.append(acc)
        return out
    for pre_, w_ in (('psign.b', 8), ('psign.w', 16), ('psign.d', 32)):
        if name in ('llvm.x86.ssse3.' + pre_ + '.128', 'llvm.x86.avx2.' + pre_):
            return [T.ite(T.bit(y, w_ - 1), T.neg(x), T.ite(T.eqz(y), T.const(0, w_), x)) for x, y in zip(*args)]
    for pre_, w_, op_ in (('phadd.w', 16, T.add), ('phadd.d', 32, T.add), ('phsub.w', 16, T.sub), ('phsub.d', 32, T.sub)):
        if name in ('llvm.x86.ssse3.' + pre_ + '.128', 'llvm.x86.avx2.' + pre_):
            a, b = args
            per = 128 // w_
            out = []
            for base in range(0, len(a), per):
                for src in (a, b):
                    out += [op_(src[base + i], src[base + i + 1]) for i in range(0, per, 2)]
            return out
    if name in ('llvm.x86.avx2.permd', 'llvm.x86.avx2.permps'):
        a, idx = args
        out = []
        for ix in idx:
            if not T.is_const(ix):
                raise Unsupported(name + ' with symbolic index')
            out.append(a[T.cval(ix) & 7])
        return out
    if name in ('llvm.x86.aesni.aesenc', 'llvm.x86.aesni.aesdec', 'llvm.x86.aesni.aesdeclast', 'llvm.x86.aesni.aesimc', 'llvm.x86.aesni.aeskeygenassist',
                'llvm.x86.pclmulqdq'):
        raise Unsupported('intrinsic ' + name + ' (only AESENCLAST is modelled: the repository uses no other AES-NI instruction)')
    raise Unsupported('intrinsic ' + name)
