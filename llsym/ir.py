# llsym: parser for the textual LLVM IR subset that rustc emits for the crates under test.
# Anything it does not understand raises Unsupported (the check then ends inconclusive, exit 2).
import re


class Unsupported(Exception):
    pass


# ------------------------------------------------------------------------------------------- types
# ('int', w) ('ptr',) ('vec', n, T) ('arr', n, T) ('struct', (T...), packed) ('void',) ('fp', w)

class Types:
    def __init__(self):
        self.named = {}

    def resolve(self, t):
        while t[0] == 'named':
            if t[1] not in self.named:
                raise Unsupported('unknown named type ' + t[1])
            t = self.named[t[1]]
        return t

    def sizeof(self, t):
        t = self.resolve(t)
        k = t[0]
        if k == 'int':
            w = t[1]
            b = (w + 7) // 8
            a = self.alignof(t)
            return (b + a - 1) // a * a
        if k == 'ptr':
            return 8
        if k == 'fp':
            return t[1] // 8
        if k == 'vec':
            bits = t[1] * self.bits(t[2])
            return (bits + 7) // 8
        if k == 'arr':
            return t[1] * self.sizeof(t[2])
        if k == 'struct':
            off = 0
            al = 1
            for f in t[1]:
                if not t[2]:
                    a = self.alignof(f)
                    al = max(al, a)
                    off = (off + a - 1) // a * a
                off += self.sizeof(f)
            return (off + al - 1) // al * al
        raise Unsupported('sizeof %r' % (t,))

    def alignof(self, t):
        t = self.resolve(t)
        k = t[0]
        if k == 'int':
            w = t[1]
            if w <= 8:
                return 1
            if w <= 16:
                return 2
            if w <= 32:
                return 4
            if w <= 64:
                return 8
            return 16
        if k == 'ptr':
            return 8
        if k == 'fp':
            return t[1] // 8
        if k == 'vec':
            s = self.sizeof(t)
            a = 1
            while a < s:
                a *= 2
            return a
        if k == 'arr':
            return self.alignof(t[2])
        if k == 'struct':
            if t[2]:
                return 1
            return max([self.alignof(f) for f in t[1]] + [1])
        raise Unsupported('alignof %r' % (t,))

    def bits(self, t):
        t = self.resolve(t)
        k = t[0]
        if k == 'int' or k == 'fp':
            return t[1]
        if k == 'ptr':
            return 64
        if k == 'vec':
            return t[1] * self.bits(t[2])
        return 8 * self.sizeof(t)

    def field_offset(self, t, i):
        t = self.resolve(t)
        off = 0
        for j, f in enumerate(t[1]):
            if not t[2]:
                a = self.alignof(f)
                off = (off + a - 1) // a * a
            if j == i:
                return off
            off += self.sizeof(f)
        raise Unsupported('field index')


class Cur:
    __slots__ = ('s', 'i')

    def __init__(self, s, i=0):
        self.s = s
        self.i = i

    def ws(self):
        s = self.s
        i = self.i
        n = len(s)
        while i < n and s[i] in ' \t\n':
            i += 1
        self.i = i

    def eof(self):
        self.ws()
        return self.i >= len(self.s)

    def peek(self, k=1):
        self.ws()
        return self.s[self.i:self.i + k]

    def startswith(self, t):
        self.ws()
        return self.s.startswith(t, self.i)

    def eat(self, t):
        self.ws()
        if self.s.startswith(t, self.i):
            self.i += len(t)
            return True
        return False

    def expect(self, t):
        if not self.eat(t):
            raise Unsupported('expected %r at %r' % (t, self.s[self.i:self.i + 60]))

    _word = re.compile(r'[A-Za-z_][\w.]*')
    _int = re.compile(r'-?\d+')
    _name = re.compile(r'[-\w.$]+')

    def word(self):
        self.ws()
        m = self._word.match(self.s, self.i)
        if not m:
            return None
        self.i = m.end()
        return m.group(0)

    def peekword(self):
        self.ws()
        m = self._word.match(self.s, self.i)
        return m.group(0) if m else None

    def integer(self):
        self.ws()
        m = self._int.match(self.s, self.i)
        if not m:
            raise Unsupported('expected integer at %r' % self.s[self.i:self.i + 40])
        self.i = m.end()
        return int(m.group(0))

    def name(self):
        """identifier after % or @ (possibly quoted)"""
        if self.s[self.i] == '"':
            j = self.s.index('"', self.i + 1)
            r = self.s[self.i + 1:j]
            self.i = j + 1
            return r
        m = self._name.match(self.s, self.i)
        if not m:
            raise Unsupported('expected name at %r' % self.s[self.i:self.i + 40])
        self.i = m.end()
        return m.group(0)

    def rest(self):
        return self.s[self.i:]


def parse_type(c):
    c.ws()
    s = c.s
    ch = s[c.i]
    if ch == 'i' and s[c.i + 1].isdigit():
        m = re.compile(r'i(\d+)').match(s, c.i)
        c.i = m.end()
        t = ('int', int(m.group(1)))
    elif s.startswith('ptr', c.i):
        c.i += 3
        t = ('ptr',)
        if c.startswith('addrspace'):
            raise Unsupported('addrspace')
    elif s.startswith('void', c.i):
        c.i += 4
        t = ('void',)
    elif s.startswith('float', c.i):
        c.i += 5
        t = ('fp', 32)
    elif s.startswith('double', c.i):
        c.i += 6
        t = ('fp', 64)
    elif s.startswith('<{', c.i):
        c.i += 2
        fs = []
        if not c.eat('}>'):
            while True:
                fs.append(parse_type(c))
                if c.eat('}>'):
                    break
                c.expect(',')
        t = ('struct', tuple(fs), True)
    elif ch == '<':
        c.i += 1
        n = c.integer()
        c.expect('x')
        e = parse_type(c)
        c.expect('>')
        t = ('vec', n, e)
    elif ch == '[':
        c.i += 1
        n = c.integer()
        c.expect('x')
        e = parse_type(c)
        c.expect(']')
        t = ('arr', n, e)
    elif ch == '{':
        c.i += 1
        fs = []
        if not c.eat('}'):
            while True:
                fs.append(parse_type(c))
                if c.eat('}'):
                    break
                c.expect(',')
        t = ('struct', tuple(fs), False)
    elif ch == '%':
        c.i += 1
        t = ('named', c.name())
    else:
        raise Unsupported('type at %r' % s[c.i:c.i + 40])
    return t


# --------------------------------------------------------------------------------------- constants
# constant python forms:
#   ('int', w, value) ('null',) ('undef', T) ('zero', T) ('agg', T, [consts]) ('gaddr', name, off)
#   ('bytes', b'...')   (c"..." strings)

def _cstring(c):
    # at c"
    s = c.s
    i = c.i + 2
    out = bytearray()
    while s[i] != '"':
        if s[i] == '\\':
            if s[i + 1] == '\\':
                out.append(0x5c)
                i += 2
                continue
            out.append(int(s[i + 1:i + 3], 16))
            i += 3
        else:
            out.append(ord(s[i]))
            i += 1
    c.i = i + 1
    return bytes(out)


PARAM_ATTR_WORDS = set('''noalias noundef nonnull readonly writeonly readnone nocapture signext zeroext inreg returned
nofree nest immarg dead_on_unwind writable swiftself swifterror inalloca dead_on_return'''.split())


def parse_const(c, t, types):
    """parse a constant of (already parsed) type t; returns a value descriptor"""
    c.ws()
    s = c.s
    rt = types.resolve(t)
    if c.eat('zeroinitializer'):
        return ('zero', rt)
    if c.eat('undef') or c.eat('poison'):
        return ('undef', rt)
    if rt[0] == 'int':
        if c.eat('true'):
            return ('int', 1, 1)
        if c.eat('false'):
            return ('int', 1, 0)
        if c.startswith('ptrtoint'):
            c.eat('ptrtoint')
            c.expect('(')
            parse_type(c)
            v = parse_const(c, ('ptr',), types)
            c.expect('to')
            parse_type(c)
            c.expect(')')
            return v
        if c.peek(2) in ('u0', 's0'):
            c.i += 1  # 0x... hex literal with u/s prefix
        if c.startswith('0x'):
            raise Unsupported('hex int const')
        return ('int', rt[1], c.integer() & ((1 << rt[1]) - 1))
    if rt[0] == 'ptr':
        if c.eat('null'):
            return ('int', 64, 0)
        if c.peek() == '@':
            c.i += 1
            return ('gaddr', c.name(), 0)
        if c.startswith('getelementptr'):
            c.eat('getelementptr')
            while c.peekword() in ('inbounds', 'nuw', 'nusw', 'inrange'):
                c.word()
            c.expect('(')
            et = parse_type(c)
            c.expect(',')
            parse_type(c)
            base = parse_const(c, ('ptr',), types)
            off = 0
            first = True
            cur_t = et
            while c.eat(','):
                it = parse_type(c)
                idx = parse_const(c, it, types)
                if idx[0] != 'int':
                    raise Unsupported('gep const index')
                iv = idx[2]
                if iv >> (idx[1] - 1):
                    iv -= 1 << idx[1]
                if first:
                    off += iv * types.sizeof(cur_t)
                    first = False
                else:
                    rt2 = types.resolve(cur_t)
                    if rt2[0] == 'struct':
                        off += types.field_offset(rt2, iv)
                        cur_t = rt2[1][iv]
                    else:
                        cur_t = rt2[2]
                        off += iv * types.sizeof(cur_t)
            c.expect(')')
            if base[0] == 'gaddr':
                return ('gaddr', base[1], base[2] + off)
            if base[0] == 'int':
                return ('int', 64, (base[2] + off) & ((1 << 64) - 1))
            raise Unsupported('gep const base')
        if c.startswith('inttoptr'):
            c.eat('inttoptr')
            c.expect('(')
            it = parse_type(c)
            v = parse_const(c, it, types)
            c.expect('to')
            parse_type(c)
            c.expect(')')
            return ('int', 64, v[2])
        raise Unsupported('ptr const at %r' % s[c.i:c.i + 50])
    if rt[0] == 'fp':
        raise Unsupported('fp const')
    if rt[0] == 'vec':
        if c.eat('splat'):
            c.expect('(')
            et = parse_type(c)
            v = parse_const(c, et, types)
            c.expect(')')
            return ('agg', rt, [v] * rt[1])
        c.expect('<')
        els = []
        while True:
            et = parse_type(c)
            els.append(parse_const(c, et, types))
            if c.eat('>'):
                break
            c.expect(',')
        return ('agg', rt, els)
    if rt[0] == 'arr':
        if c.startswith('c"'):
            return ('bytes', _cstring(c))
        c.expect('[')
        els = []
        if not c.eat(']'):
            while True:
                et = parse_type(c)
                els.append(parse_const(c, et, types))
                if c.eat(']'):
                    break
                c.expect(',')
        return ('agg', rt, els)
    if rt[0] == 'struct':
        close = '}>' if rt[2] else '}'
        c.expect('<{' if rt[2] else '{')
        els = []
        if not c.eat(close):
            while True:
                et = parse_type(c)
                els.append(parse_const(c, et, types))
                if c.eat(close):
                    break
                c.expect(',')
        return ('agg', rt, els)
    raise Unsupported('const of type %r' % (rt,))


def parse_value(c, t, types):
    """operand: ('r', name) register | ('c', const)"""
    c.ws()
    ch = c.s[c.i]
    if ch == '%':
        c.i += 1
        return ('r', c.name())
    return ('c', parse_const(c, t, types))


def skip_attrs(c):
    """skip parameter / return attributes before a value"""
    while True:
        c.ws()
        w = c.peekword()
        if w is None:
            return
        if w in PARAM_ATTR_WORDS:
            c.word()
            continue
        if w in ('align', 'dereferenceable', 'dereferenceable_or_null', 'captures', 'sret', 'byval', 'byref',
                 'preallocated', 'elementtype', 'range', 'nofpclass', 'initializes', 'memory', 'alignstack'):
            c.word()
            c.ws()
            if c.peek() == '(':
                depth = 0
                while True:
                    ch = c.s[c.i]
                    if ch == '(':
                        depth += 1
                    elif ch == ')':
                        depth -= 1
                        if depth == 0:
                            c.i += 1
                            break
                    c.i += 1
            else:
                c.integer()
            continue
        return


# ------------------------------------------------------------------------------------ instructions

class Ins:
    __slots__ = ('op', 'dst', 'ty', 'a', 'b', 'c', 'x', 'align', 'text')

    def __init__(self, op, dst=None):
        self.op = op
        self.dst = dst
        self.ty = None
        self.a = self.b = self.c = self.x = None
        self.align = None
        self.text = None

    def __repr__(self):
        return 'Ins(%s)' % self.text


BINOPS = {'add', 'sub', 'mul', 'udiv', 'urem', 'sdiv', 'srem', 'and', 'or', 'xor', 'shl', 'lshr', 'ashr'}
CASTS = {'zext', 'sext', 'trunc', 'bitcast', 'ptrtoint', 'inttoptr', 'freeze'}
CC_WORDS = {'fastcc', 'ccc', 'coldcc', 'tailcc', 'preserve_mostcc', 'preserve_allcc', 'cold'}
_meta = re.compile(r'(, ![\w.]+ ![\w]+)+\s*$')


def parse_ins(line, types):
    text = line
    line = _meta.sub('', line)
    c = Cur(line)
    dst = None
    if c.peek() == '%':
        # assignment?
        save = c.i
        c.i += 1
        nm = c.name()
        if c.eat('='):
            dst = nm
        else:
            c.i = save
    op = c.word()
    if op in ('tail', 'musttail', 'notail'):
        op = c.word()
    ins = Ins(op, dst)
    ins.text = text
    if op in BINOPS:
        while c.peekword() in ('nuw', 'nsw', 'exact', 'disjoint'):
            c.word()
        ins.ty = types.resolve(parse_type(c))
        ins.a = parse_value(c, ins.ty, types)
        c.expect(',')
        ins.b = parse_value(c, ins.ty, types)
    elif op == 'load':
        atomic = c.eat('atomic')
        c.eat('volatile')
        ins.ty = types.resolve(parse_type(c))
        c.expect(',')
        c.expect('ptr')
        ins.a = parse_value(c, ('ptr',), types)
        m = re.search(r'align (\d+)', c.rest())
        ins.align = int(m.group(1)) if m else types.alignof(ins.ty)
        ins.x = atomic
    elif op == 'store':
        atomic = c.eat('atomic')
        c.eat('volatile')
        ins.ty = types.resolve(parse_type(c))
        ins.a = parse_value(c, ins.ty, types)
        c.expect(',')
        c.expect('ptr')
        ins.b = parse_value(c, ('ptr',), types)
        m = re.search(r'align (\d+)', c.rest())
        ins.align = int(m.group(1)) if m else types.alignof(ins.ty)
        ins.x = atomic
    elif op == 'getelementptr':
        while c.peekword() in ('inbounds', 'nuw', 'nusw'):
            c.word()
        ety = types.resolve(parse_type(c))
        c.expect(',')
        c.expect('ptr')
        ins.a = parse_value(c, ('ptr',), types)
        idx = []
        while c.eat(','):
            it = types.resolve(parse_type(c))
            idx.append((it, parse_value(c, it, types)))
        ins.ty = ety
        ins.b = idx
    elif op == 'alloca':
        ins.ty = types.resolve(parse_type(c))
        n = 1
        if c.eat(','):
            if c.startswith('align'):
                c.word()
                ins.align = c.integer()
            else:
                it = parse_type(c)
                v = parse_value(c, it, types)
                if v[0] != 'c':
                    raise Unsupported('dynamic alloca')
                n = v[1][2]
                if c.eat(','):
                    c.expect('align')
                    ins.align = c.integer()
        ins.a = n
        if ins.align is None:
            ins.align = types.alignof(ins.ty)
    elif op == 'phi':
        ins.ty = types.resolve(parse_type(c))
        inc = []
        while True:
            c.expect('[')
            v = parse_value(c, ins.ty, types)
            c.expect(',')
            c.expect('%')
            bb = c.name()
            c.expect(']')
            inc.append((bb, v))
            if not c.eat(','):
                break
        ins.a = dict(inc)
    elif op == 'br':
        if c.eat('label'):
            c.expect('%')
            ins.a = c.name()
        else:
            c.expect('i1')
            ins.c = parse_value(c, ('int', 1), types)
            c.expect(',')
            c.expect('label')
            c.expect('%')
            ins.a = c.name()
            c.expect(',')
            c.expect('label')
            c.expect('%')
            ins.b = c.name()
    elif op == 'switch':
        ins.ty = types.resolve(parse_type(c))
        ins.a = parse_value(c, ins.ty, types)
        c.expect(',')
        c.expect('label')
        c.expect('%')
        ins.b = c.name()
        c.expect('[')
        cases = []
        while not c.eat(']'):
            t = types.resolve(parse_type(c))
            v = parse_const(c, t, types)
            c.expect(',')
            c.expect('label')
            c.expect('%')
            cases.append((v[2], c.name()))
        ins.c = cases
    elif op == 'ret':
        t = types.resolve(parse_type(c))
        ins.ty = t
        if t[0] != 'void':
            ins.a = parse_value(c, t, types)
    elif op == 'unreachable':
        pass
    elif op == 'icmp':
        c.eat('samesign')
        ins.x = c.word()
        ins.ty = types.resolve(parse_type(c))
        ins.a = parse_value(c, ins.ty, types)
        c.expect(',')
        ins.b = parse_value(c, ins.ty, types)
    elif op == 'select':
        ct = types.resolve(parse_type(c))
        ins.c = (ct, parse_value(c, ct, types))
        c.expect(',')
        ins.ty = types.resolve(parse_type(c))
        ins.a = parse_value(c, ins.ty, types)
        c.expect(',')
        parse_type(c)
        ins.b = parse_value(c, ins.ty, types)
    elif op in CASTS:
        while c.peekword() in ('nuw', 'nsw', 'nneg'):
            c.word()
        st = types.resolve(parse_type(c))
        ins.a = parse_value(c, st, types)
        ins.x = st
        if op == 'freeze':
            ins.ty = st
        else:
            c.expect('to')
            ins.ty = types.resolve(parse_type(c))
    elif op == 'shufflevector':
        t1 = types.resolve(parse_type(c))
        ins.a = parse_value(c, t1, types)
        c.expect(',')
        parse_type(c)
        ins.b = parse_value(c, t1, types)
        c.expect(',')
        mt = types.resolve(parse_type(c))
        m = parse_const(c, mt, types)
        if m[0] == 'zero':
            mask = [0] * mt[1]
        elif m[0] == 'undef':
            mask = [None] * mt[1]
        else:
            mask = [(None if e[0] == 'undef' else e[2]) for e in m[2]]
        ins.c = mask
        ins.x = t1
        ins.ty = ('vec', len(mask), t1[2])
    elif op == 'extractelement':
        t1 = types.resolve(parse_type(c))
        ins.a = parse_value(c, t1, types)
        c.expect(',')
        it = types.resolve(parse_type(c))
        ins.b = parse_value(c, it, types)
        ins.ty = t1[2]
        ins.x = t1
    elif op == 'insertelement':
        t1 = types.resolve(parse_type(c))
        ins.a = parse_value(c, t1, types)
        c.expect(',')
        et = types.resolve(parse_type(c))
        ins.b = parse_value(c, et, types)
        c.expect(',')
        it = types.resolve(parse_type(c))
        ins.c = parse_value(c, it, types)
        ins.ty = t1
    elif op == 'extractvalue':
        t1 = types.resolve(parse_type(c))
        ins.a = parse_value(c, t1, types)
        idx = []
        while c.eat(','):
            idx.append(c.integer())
        ins.b = idx
        ins.x = t1
    elif op == 'insertvalue':
        t1 = types.resolve(parse_type(c))
        ins.a = parse_value(c, t1, types)
        c.expect(',')
        et = types.resolve(parse_type(c))
        ins.b = parse_value(c, et, types)
        idx = []
        while c.eat(','):
            idx.append(c.integer())
        ins.c = idx
        ins.ty = t1
    elif op == 'call':
        while True:
            w = c.peekword()
            if w in CC_WORDS or w in ('nnan', 'ninf', 'nsz', 'arcp', 'contract', 'afn', 'reassoc', 'fast'):
                c.word()
            else:
                break
        skip_attrs(c)
        ins.ty = types.resolve(parse_type(c))
        c.ws()
        if c.peek() == '(':
            # function type given explicitly: skip "(...)"
            depth = 0
            while True:
                ch = c.s[c.i]
                if ch == '(':
                    depth += 1
                elif ch == ')':
                    depth -= 1
                    if depth == 0:
                        c.i += 1
                        break
                c.i += 1
            c.ws()
        if c.peek() == '@':
            c.i += 1
            ins.a = ('g', c.name())
        elif c.peek() == '%':
            c.i += 1
            ins.a = ('r', c.name())
        else:
            raise Unsupported('call target: ' + text)
        c.expect('(')
        args = []
        if not c.eat(')'):
            while True:
                if c.startswith('metadata'):
                    ins.op = 'nop'
                    return ins
                at = types.resolve(parse_type(c))
                skip_attrs(c)
                args.append((at, parse_value(c, at, types)))
                if c.eat(')'):
                    break
                c.expect(',')
        ins.b = args
    elif op == 'fence':
        pass
    elif op == 'cmpxchg':
        c.eat('weak')
        c.eat('volatile')
        c.expect('ptr')
        ins.a = parse_value(c, ('ptr',), types)
        c.expect(',')
        ins.ty = types.resolve(parse_type(c))
        ins.b = parse_value(c, ins.ty, types)
        c.expect(',')
        t2 = types.resolve(parse_type(c))
        ins.c = parse_value(c, t2, types)
        m = re.search(r'align (\d+)', c.rest())
        ins.align = int(m.group(1)) if m else types.alignof(ins.ty)
        ins.x = True
    elif op == 'atomicrmw':
        c.eat('volatile')
        ins.x = c.word()          # xchg add sub and nand or xor max min umax umin
        c.expect('ptr')
        ins.a = parse_value(c, ('ptr',), types)
        c.expect(',')
        ins.ty = types.resolve(parse_type(c))
        ins.b = parse_value(c, ins.ty, types)
        m = re.search(r'align (\d+)', c.rest())
        ins.align = int(m.group(1)) if m else types.alignof(ins.ty)
    else:
        raise Unsupported('instruction: ' + text)
    return ins


class Function:
    def __init__(self, name):
        self.name = name
        self.params = []   # [(type, name)]
        self.ret = None
        self.blocks = {}   # label -> [Ins]
        self.entry = None
        self.raw = None    # unparsed body lines (parsed lazily)
        self.module = None


class Global:
    def __init__(self, name):
        self.name = name
        self.ty = None
        self.init = None
        self.align = 1
        self.constant = False
        self.external = False
        self.thread_local = False


_define = re.compile(r'^define\s')
_label = re.compile(r'^([-\w.$]+|"[^"]*"):')


_PRIVATE_NAMES = re.compile(r'@((?:vtable|anon|switch\.table|str|__unnamed_|\.str|\.L)[\w.]*)(?![\w.$])')


class Module:
    """all .ll files of one build, linked by symbol name"""

    def __init__(self):
        self.types = Types()
        self.funcs = {}
        self.globals = {}
        self.declared = set()
        self.aliases = {}
        self.files = []

    def load(self, path):
        self.files.append(path)
        with open(path) as f:
            text = f.read()
        # module-private symbols with generic names (vtable.N, anon.*, switch.table.*, ...) collide across crates: scope them
        fi = len(self.files)
        text = _PRIVATE_NAMES.sub(lambda m: '@%s$m%d' % (m.group(1), fi), text)
        lines = text.split('\n')
        i = 0
        n = len(lines)
        types = self.types
        while i < n:
            line = lines[i]
            if line.startswith('%') and ' = type ' in line:
                m = re.match(r'%("[^"]*"|[-\w.$]+) = type (.*)$', line)
                nm = m.group(1).strip('"')
                if m.group(2).strip() != 'opaque':
                    types.named[nm] = parse_type(Cur(m.group(2)))
            elif line.startswith('@'):
                self._global(line)
            elif line.startswith('declare'):
                m = re.search(r'@("[^"]*"|[-\w.$]+)\(', line)
                self.declared.add(m.group(1).strip('"'))
            elif _define.match(line):
                j = i + 1
                while lines[j] != '}':
                    j += 1
                self._define(line, lines[i + 1:j])
                i = j
            i += 1

    def _global(self, line):
        m = re.match(r'@("[^"]*"|[-\w.$]+) = (.*)$', line)
        name = m.group(1).strip('"')
        rest = m.group(2)
        g = Global(name)
        c = Cur(rest)
        kind = None
        while True:
            w = c.peekword()
            if w in ('private', 'internal', 'external', 'unnamed_addr', 'local_unnamed_addr', 'dso_local', 'hidden',
                     'weak', 'linkonce_odr', 'weak_odr', 'thread_local', 'available_externally', 'common', 'protected',
                     'default', 'linkonce', 'extern_weak', 'externally_initialized'):
                c.word()
                if w in ('external', 'extern_weak', 'available_externally'):
                    g.external = True
                if w == 'thread_local':
                    g.thread_local = True
                    c.ws()
                    if c.peek() == '(':
                        c.i = c.s.index(')', c.i) + 1
                continue
            if w in ('global', 'constant'):
                c.word()
                kind = w
                break
            if w == 'alias':
                m2 = re.search(r'alias .*?, ptr @("[^"]*"|[-\w.$]+)\s*$', rest)
                if m2:
                    self.aliases[name] = m2.group(1).strip('"')
                return
            raise Unsupported('global: ' + line[:120])
        g.constant = kind == 'constant'
        g.ty = self.types.resolve(parse_type(c))
        if not g.external:
            try:
                g.init = parse_const(c, g.ty, self.types)
            except Unsupported as e:
                g.init = ('unsupported', str(e))
        m2 = re.search(r', align (\d+)', c.rest())
        g.align = int(m2.group(1)) if m2 else self.types.alignof(g.ty)
        old = self.globals.get(name)
        if old is not None and g.external and not old.external:
            return
        self.globals[name] = g

    def _define(self, header, body):
        m = re.search(r'@("[^"]*"|[-\w.$]+)\(', header)
        name = m.group(1).strip('"')
        f = Function(name)
        f.module = self
        # return type: between 'define ... ' and '@name'
        pre = header[len('define'):m.start()]
        c = Cur(pre)
        while True:
            w = c.peekword()
            if w is None:
                break
            if w in ('internal', 'private', 'hidden', 'dso_local', 'weak', 'linkonce_odr', 'weak_odr', 'protected',
                     'unnamed_addr', 'local_unnamed_addr', 'available_externally', 'default') or w in CC_WORDS:
                c.word()
                continue
            break
        skip_attrs(c)
        f.ret = self.types.resolve(parse_type(c))
        # params
        c = Cur(header, m.end())
        params = []
        if not c.eat(')'):
            while True:
                if c.eat('...'):
                    c.expect(')')
                    break
                t = self.types.resolve(parse_type(c))
                skip_attrs(c)
                c.expect('%')
                params.append((t, c.name()))
                if c.eat(')'):
                    break
                c.expect(',')
        f.params = params
        f.raw = body
        self.funcs[name] = f

    def func(self, name):
        f = self.funcs.get(name)
        if f is None and name in self.aliases:
            return self.func(self.aliases[name])
        if f is not None and f.raw is not None:
            self._parse_body(f)
        return f

    def _parse_body(self, f):
        body = f.raw
        f.raw = None
        cur = None
        i = 0
        n = len(body)
        while i < n:
            line = body[i]
            i += 1
            if not line or line[0] == ';':
                continue
            if line[0] != ' ':
                m = _label.match(line)
                if not m:
                    raise Unsupported('label? ' + line)
                cur = m.group(1).strip('"')
                f.blocks[cur] = []
                if f.entry is None:
                    f.entry = cur
                continue
            s = line.strip()
            k = s.find(' ; ')
            if k >= 0 and '"' not in s[k:]:
                s = s[:k].rstrip()
            if s.startswith('switch') and s.endswith('['):
                while not body[i].strip().startswith(']'):
                    s += ' ' + body[i].strip()
                    i += 1
                s += ' ]'
                i += 1
            if s.startswith('#dbg'):
                continue
            f.blocks[cur].append(parse_ins(s, self.types))

    def find(self, pattern):
        """function names matching a regex"""
        r = re.compile(pattern)
        return sorted(n for n in self.funcs if r.search(n))
