# llsym: calling harness entries symbolically and natively (replay)
import os
import subprocess

from . import terms as T
from . import execu, check, build


class Buf:
    """a caller-provided byte buffer = its own memory object with exact bounds and guaranteed alignment 1"""

    def __init__(self, name, size, init=None, align=1, writable=True, sym=False):
        self.name = name
        self.size = size
        if init is None and sym:
            init = T.var(name, 8 * size)
        self.init = init
        self.align = align
        self.writable = writable


class Sc:
    def __init__(self, name, width, val=None):
        self.name = name
        self.width = width
        self.val = T.var(name, width) if val is None else (T.const(val, width) if isinstance(val, int) else val)


def default_exec(mod, summaries=None, cpu='initialised', trace=False, concrete_layout=None):
    if concrete_layout is None:
        concrete_layout = getattr(mod, 'config', '').startswith('devchk')
    ex = execu.Exec(mod, summaries=dict(summaries or {}), ext_globals={'std_detect6detect5cache5CACHE': check.std_detect_cache(cpu)}, trace=trace,
                    concrete_layout=concrete_layout)
    ex.summary_res.append((__import__('re').compile(r'std_detect6detect5cache21detect_and_initialize'), check.detect_and_initialize))
    return ex


def run(mod, fname, args, summaries=None, cpu='initialised', trace=False, maxpaths=4096, ex=None, pre=None):
    """explore all paths of entry fname; returns (results, exec)"""
    if ex is None:
        ex = default_exec(mod, summaries, cpu, trace)

    def setup(e):
        e.named = {}
        vals = []
        for a in args:
            if isinstance(a, Buf):
                o = e.new_obj(a.size, a.align, a.name, 'arg', a.writable, a.init)
                e.named[a.name] = o
                vals.append(e.ptr(o))
            else:
                vals.append(a.val)
        if pre:
            pre(e)
        return fname, vals
    res = ex.explore(setup, maxpaths)
    ex.last_setup = setup
    return res, ex


def rerun(ex, r):
    """re-execute the path of PathResult r (same decisions) - used after construction-time aliases were installed"""
    keys = getattr(r, 'decision_keys', None) if getattr(r, 'keyed', False) else None
    try:
        return ex.run_single(ex.last_setup, r.decisions, keys)
    finally:
        ex.replay = None


def arg_hex(args, model, ufs=None):
    """concrete replay arguments under a model (unassigned variables = 0)"""
    ev = T.Evaluator(model or {}, ufs)
    out = []
    for a in args:
        if isinstance(a, Buf):
            if a.init is None:
                out.append('00' * a.size)
            else:
                out.append(ev.val(a.init).to_bytes(a.size, 'little').hex())
        else:
            out.append('%x' % ev.val(a.val))
    return out


_replay_bins = {}


def replay_bin(profile='release', features=('std', 'hashes', 'x86hashes'), rustflags=''):
    """build (incrementally) and return the native replay binary for /repo's current tree"""
    key = (profile, tuple(features), rustflags)
    if key in _replay_bins:
        return _replay_bins[key]
    import hashlib
    tdir = os.path.join(build.CACHE, 'build', 'replay-%s-%s%s' % (profile, '-'.join(features) or 'none', ('-' + hashlib.md5(rustflags.encode()).hexdigest()[:6]) if rustflags else ''))
    env = dict(os.environ)
    env['CARGO_NET_OFFLINE'] = 'true'
    env['CARGO_TARGET_DIR'] = tdir
    env['RUSTFLAGS'] = ('--cfg cryptocorrosion_verif ' + rustflags).strip()
    cmd = ['cargo', 'build', '--offline', '--bin', 'vreplay', '--no-default-features', '--features', ','.join(features)]
    if profile == 'release':
        cmd.append('--release')
    p = subprocess.run(cmd, cwd=os.path.join(build.VERIF, 'harness'), env=env, stdout=subprocess.PIPE, stderr=subprocess.PIPE, text=True)
    if p.returncode != 0:
        raise build.BuildError('replay build failed', p.stderr[-3000:])
    b = os.path.join(tdir, 'release' if profile == 'release' else 'debug', 'vreplay')
    _replay_bins[key] = b
    return b


def replay(fname, args, model, profile='release', features=('std', 'hashes', 'x86hashes'), backend=None, timeout=60, ufs=None, rustflags=''):
    """run the entry natively; returns dict(status='ok'|'panic'|'crash', outputs=[hex...], ret=str, stderr=str)"""
    b = replay_bin(profile, features, rustflags)
    env = dict(os.environ)
    cpu = cpu_mask(model)
    if cpu is not None:
        env['VERIF_CPU'] = str(cpu)
    p = subprocess.run([b, fname] + arg_hex(args, model, ufs), stdout=subprocess.PIPE, stderr=subprocess.PIPE, text=True, env=env, timeout=timeout)
    lines = [l for l in p.stdout.split('\n') if l]
    r = {'status': 'ok', 'outputs': [], 'ret': None, 'stderr': p.stderr[-600:], 'code': p.returncode}
    if p.returncode != 0:
        r['status'] = 'panic' if 'panicked' in p.stderr else 'crash'
        return r
    for l in lines:
        if l.startswith('ret='):
            r['ret'] = l[4:]
        else:
            r['outputs'].append(l)
    return r


def cpu_mask(model):
    """hook H1 mask (bit0 sse2, 1 ssse3, 2 sse4.1, 3 avx, 4 avx2) for the CPU-feature word of a model"""
    if not model or 'cpu' not in model:
        return None
    c = model['cpu']
    return 1 | ((c >> 9) & 1) << 1 | ((c >> 10) & 1) << 2 | ((c >> 14) & 1) << 3 | ((c >> 15) & 1) << 4


def mutable_bufs(args):
    """names of the buffers vreplay prints, in order"""
    return [a for a in args if isinstance(a, Buf) and a.writable]
