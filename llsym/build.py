# llsym: build the harness crate against /repo's current working tree and collect the LLVM IR of every crate.
import json
import os
import subprocess
import time

VERIF = os.path.dirname(os.path.dirname(os.path.abspath(__file__)))
CACHE = os.path.join(VERIF, '.cache')
REPO = os.environ.get('VERIF_REPO', '/repo')

REPO_CRATES = {'c2_chacha', 'ppv_lite86', 'ppv_null', 'crypto_simd', 'threefish_cipher', 'blake_hash', 'groestl_aesni',
               'jh_x86_64', 'skein_hash'}

BASE_RUSTFLAGS = '--emit=llvm-ir,link -C codegen-units=1 -C debuginfo=0 --cfg cryptocorrosion_verif'

# name -> (cargo feature list, extra rustflags)
CONFIGS = {
    'release-std': (['std', 'hashes', 'x86hashes'], ''),
    'release-nosimd': (['std', 'no_simd', 'hashes', 'x86hashes'], ''),
    'devchk-std': (['std', 'hashes', 'x86hashes'], '-C overflow-checks=on -C debug-assertions=on'),
    'devchk-nosimd': (['std', 'no_simd', 'hashes', 'x86hashes'], '-C overflow-checks=on -C debug-assertions=on'),
    'release-nounroll': (['std', 'hashes', 'no_unroll'], ''),
    # compile-time dispatch (ppv-lite86 without "std"); jh-x86_64 forces ppv-lite86/std and is therefore not part of these
    'release-nostd-sse2': (['hashes'], ''),
    'release-nostd-ssse3': (['hashes'], '-C target-feature=+ssse3'),
    'release-nostd-sse41': (['hashes'], '-C target-feature=+ssse3,+sse4.1'),
    'release-nostd-avx': (['hashes'], '-C target-feature=+ssse3,+sse4.1,+avx'),
    'release-nostd-avx2': (['hashes'], '-C target-feature=+ssse3,+sse4.1,+avx,+avx2'),
}


class BuildError(Exception):
    def __init__(self, msg, log):
        Exception.__init__(self, msg)
        self.log = log


def build(config, crate='harness', extra_features=(), quiet=True):
    """returns (list of .ll paths, seconds). Rebuilds incrementally from /repo's working tree."""
    feats, flags = CONFIGS[config]
    feats = list(feats) + list(extra_features)
    tdir = os.path.join(CACHE, 'build', crate + '-' + config)
    os.makedirs(tdir, exist_ok=True)
    env = dict(os.environ)
    env['CARGO_NET_OFFLINE'] = 'true'
    env['CARGO_TARGET_DIR'] = tdir
    env['RUSTFLAGS'] = (BASE_RUSTFLAGS + ' ' + flags).strip()
    env.pop('RUSTC_WRAPPER', None)
    cdir = os.path.join(VERIF, crate)
    lock = os.path.join(cdir, 'Cargo.lock')
    if not os.path.exists(lock):
        import shutil
        shutil.copy(os.path.join(REPO, 'Cargo.lock'), lock)
    cmd = ['cargo', 'build', '--release', '--offline', '--lib', '--no-default-features', '--message-format=json']
    if feats:
        cmd += ['--features', ','.join(feats)]
    t0 = time.time()
    p = subprocess.run(cmd, cwd=cdir, env=env, stdout=subprocess.PIPE, stderr=subprocess.PIPE, text=True)
    dt = time.time() - t0
    if p.returncode != 0:
        raise BuildError('cargo build failed for %s/%s' % (crate, config), p.stderr[-4000:])
    lls = []
    for line in p.stdout.split('\n'):
        if not line.startswith('{'):
            continue
        m = json.loads(line)
        if m.get('reason') != 'compiler-artifact':
            continue
        if m['target']['kind'] in (['custom-build'], ['proc-macro']):
            continue
        pkg = m.get('package_id', '')
        tname = m['target']['name'].replace('-', '_')
        if tname in REPO_CRATES and ('path+file://' + REPO) not in pkg:
            raise BuildError('crate %s resolved outside %s: %s' % (tname, REPO, pkg), pkg)
        if str(m.get('profile', {}).get('opt_level')) == '0':
            continue  # build-script dependencies (host side)
        for fn in m.get('filenames', []):
            if fn.endswith('.rlib') or fn.endswith('.a'):
                d, b = os.path.split(fn)
                stem = b[3:].rsplit('.', 1)[0] if b.startswith('lib') else b.rsplit('.', 1)[0]
                ll = os.path.join(d, stem + '.ll')
                if not os.path.exists(ll):
                    ll = os.path.join(d, 'deps', stem + '.ll')
                if not os.path.exists(ll):
                    import glob
                    c = sorted(glob.glob(os.path.join(d, 'deps', stem + '-*.ll')), key=os.path.getmtime)
                    ll = c[-1] if c else ll
                if os.path.exists(ll) and ll not in lls:
                    lls.append(ll)
    return lls, dt


def load(config, crate='harness', extra_features=()):
    from .execu import load_module
    lls, dt = build(config, crate, extra_features)
    t0 = time.time()
    m = load_module(lls)
    m.build_s = dt
    m.parse_s = time.time() - t0
    m.config = config
    return m
