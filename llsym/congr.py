# llsym: signature-guided structural congruence.
#
# Two terms that were built by structurally parallel computations but differ in a few small input cones (typically
# counter arithmetic that the optimiser narrowed or widened) are hard for a bit-blasting solver as one miter, yet
# trivially equal by congruence: descend both DAGs in lockstep, pairing differing sub-terms by their simulation
# signature (concrete evaluation under a few random assignments - used only to *guess* the pairing), and collect the
# pairs where the structure diverges as residual obligations. If every residual pair is proved equal by the solver,
# the original terms are equal (congruence: equal arguments give equal results).  A failed residual says nothing
# about the original pair; the caller then falls back to the full query.
import random
from . import terms as T


def biased(rng, w):
    """random value whose 32-bit words are often at carry/borrow corners (all ones, zero, +-1, +-small)"""
    r = 0
    for i in range(0, w, 32):
        n = min(32, w - i)
        p = rng.random()
        if p < 0.4:
            x = rng.getrandbits(n)
        elif p < 0.65:
            x = (1 << n) - 1 - rng.choice([0, 0, 0, 1, 2, 3, 4])
        elif p < 0.8:
            x = rng.choice([0, 0, 1, 2, 3, 4])
        else:
            x = rng.getrandbits(n) | ((1 << n) - 1) ^ ((1 << rng.randrange(n)) - 1)
        r |= (x & ((1 << n) - 1)) << i
    return r


class Congruence:
    def __init__(self, seed=0, nsim=10, extra_vars=None):
        self.rng = random.Random(seed)
        self.nsim = nsim
        self.evals = None
        self.memo = {}
        self.memo_node = {}
        self.sigcache = {}
        self.residual = []       # (value_a, value_b)
        self.resset = set()
        self.failed = False

    def _init_evals(self, vals):
        names = {}
        seen = set()
        stack = []
        for v in vals:
            stack.extend(T.value_deps(v))
        while stack:
            j = stack.pop()
            if j in seen:
                continue
            seen.add(j)
            op, w, args = T.nodes[j]
            if op == 'var':
                names[args] = w
            else:
                stack.extend(T.node_deps(j))
        self.evals = []
        for i in range(self.nsim):
            if i == 0:
                asg = {n: self.rng.getrandbits(w) for n, w in names.items()}
            elif i <= 5:
                # deterministic carry/borrow corners: every 32-bit word = -1, -2, -3, -4, 0
                pat = [0xffffffff, 0xfffffffe, 0xfffffffd, 0xfffffffc, 0][i - 1]
                asg = {n: int.from_bytes(pat.to_bytes(4, 'little') * ((w + 31) // 32), 'little') & ((1 << w) - 1) for n, w in names.items()}
            else:
                asg = {n: biased(self.rng, w) for n, w in names.items()}
            self.evals.append(T.Evaluator(asg))

    def sig_node(self, nid):
        return tuple(ev.node(nid) for ev in self.evals)

    def sig_val(self, v):
        r = self.sigcache.get(v)
        if r is None:
            r = tuple(ev.val(v) for ev in self.evals)
            self.sigcache[v] = r
        return r

    def add_residual(self, a, b):
        if self.sig_val(a) != self.sig_val(b):
            return False            # definitely different under simulation: not a usable residual
        k = (a, b)
        if k not in self.resset:
            self.resset.add(k)
            self.residual.append(k)
        return True

    # ------------------------------------------------------------------
    def eqv(self, a, b):
        """try to justify a == b structurally; returns False if simulation shows they differ"""
        if a == b:
            return True
        k = (a, b)
        r = self.memo.get(k)
        if r is not None:
            return r
        r = self._eqv(a, b)
        self.memo[k] = r
        return r

    def _eqv(self, a, b):
        if T.width(a) != T.width(b):
            return False
        if self.sig_val(a) != self.sig_val(b):
            return False
        bounds = T.boundaries([a, b])
        pa = T._pieces(a, bounds)
        pb = T._pieces(b, bounds)
        for x, y in zip(pa, pb):
            if x == y:
                continue
            if not self.eqpiece(x, y):
                if not self.add_residual((x,), (y,)):
                    return False
        return True

    def eqpiece(self, x, y):
        """x, y raw segments of equal width; True if justified structurally (possibly adding finer residuals)"""
        lx, cx, n = x
        ly, cy, _ = y
        if cx != cy:
            return False
        sx = set(lx)
        sy = set(ly)
        ox = [l for l in lx if l not in sy]
        oy = [l for l in ly if l not in sx]
        if len(ox) != len(oy) or not ox:
            return False
        # 1. pair by (lo, signature of the whole node): reliable even for 1-bit slices
        pairs = []
        kx = {}
        for l in ox:
            kx.setdefault((l[1], T.nodes[l[0]][1], self.sig_node(l[0])), []).append(l)
        rest_y = []
        for l in oy:
            k = (l[1], T.nodes[l[0]][1], self.sig_node(l[0]))
            c = kx.get(k)
            if c:
                pairs.append((c.pop(), l))
            else:
                rest_y.append(l)
        rest_x = [l for c in kx.values() for l in c]
        # 2. leftovers: pair by the signature of the slice itself (positions may differ)
        if rest_x:
            m = (1 << n) - 1

            def key(l):
                nid, lo = l
                return tuple((s >> lo) & m for s in self.sig_node(nid))
            sx = {}
            for l in rest_x:
                sx.setdefault(key(l), []).append(l)
            sy = {}
            for l in rest_y:
                sy.setdefault(key(l), []).append(l)
            if set(sx) != set(sy):
                return False
            for k in sx:
                if len(sx[k]) != 1 or len(sy[k]) != 1:
                    return False
                pairs.append((sx[k][0], sy[k][0]))
        for (na, lo), (nb, lob) in pairs:
            if lo != lob:
                if not self.shifted_residual(na, lo, nb, lob, n):
                    return False
            elif not self.eqslice(na, nb, lo, n):
                return False
        return True

    def shifted_residual(self, na, loa, nb, lob, n):
        # differently positioned slices of two nodes: prove the widest aligned range once (implies every sub-slice)
        wa = T.nodes[na][1]
        wb = T.nodes[nb][1]
        d = min(loa, lob)
        a0, b0 = loa - d, lob - d
        m = min(wa - a0, wb - b0)
        A = T.extract(T.full(na), a0, m)
        B = T.extract(T.full(nb), b0, m)
        if self.sig_val(A) == self.sig_val(B):
            return self.add_residual(A, B)
        return self.add_residual(T.extract(T.full(na), loa, n), T.extract(T.full(nb), lob, n))

    def eqslice(self, na, nb, lo, n):
        if na == nb:
            return True
        k = (na, nb, lo, n)
        r = self.memo.get(k)
        if r is not None:
            return r
        r = self._eqslice(na, nb, lo, n)
        self.memo[k] = r
        return r

    def _eqslice(self, na, nb, lo, n):
        opa, wa, aa = T.nodes[na]
        opb, wb, ab = T.nodes[nb]
        if wa == wb and opa == opb and self.sig_node(na) == self.sig_node(nb):
            # the whole nodes look equal: justify that (memoised per node pair, linear in the DAG size)
            if self.eqnode(na, nb):
                return True
        if lo == 0 and n == wa and n == wb:
            return self.add_residual(T.full(na), T.full(nb))
        if opa == 'add' and opb == 'add':
            # bits [lo, lo+n) of a sum depend only on the low lo+n bits of the summands
            if self.eqadd(aa, ab, lo + n):
                return True
        return self.add_residual(T.extract(T.full(na), lo, n), T.extract(T.full(nb), lo, n))

    def eqadd(self, aa, ab, n):
        M = (1 << n) - 1
        ca, cb = aa[1] & M, ab[1] & M
        # pair summands by (coefficient, signature); whatever cannot be paired is summed up on each side and the two
        # partial sums become one residual (typically the counter words, a tiny cone).
        # stage 1 pairs on the signature of the untruncated summand (robust even when n is tiny), stage 2 on the
        # signature of the low n bits (only when n is wide enough for signatures to be meaningful)
        xa = [(t, k & M) for t, k in aa[0] if k & M]
        xb = [(t, k & M) for t, k in ab[0] if k & M]
        todo = []
        for stage in (1, 2):
            if stage == 2 and n < 16:
                break
            sa = {}
            for t, k in xa:
                key = (k, T.width(t), self.sig_val(t)) if stage == 1 else (k, self.sig_val(T.extract(t, 0, n)))
                sa.setdefault(key, []).append(t)
            nb = []
            for t, k in xb:
                key = (k, T.width(t), self.sig_val(t)) if stage == 1 else (k, self.sig_val(T.extract(t, 0, n)))
                c = sa.get(key)
                if c:
                    if t in c:
                        c.remove(t)
                    else:
                        todo.append((T.extract(c.pop(), 0, n), T.extract(t, 0, n)))
                else:
                    nb.append((t, k))
            xa = [(t, key[0]) for key, c in sa.items() for t in c]
            xb = nb
        if xa or xb or ca != cb:
            A = T.lin(n, [(T.extract(t, 0, n), k) for t, k in xa], ca)
            B = T.lin(n, [(T.extract(t, 0, n), k) for t, k in xb], cb)
            if A != B:
                if not self.add_residual(A, B):
                    return False
        for x, y in todo:
            if not self.eqv(x, y):
                return False
        return True

    def pair_terms(self, ta, tb):
        """pair (term, coef) lists by (coef, signature); recursively justify the paired terms"""
        if len(ta) != len(tb):
            return False
        sa = {}
        for t, k in ta:
            sa.setdefault((k, self.sig_val(t)), []).append(t)
        todo = []
        for t, k in tb:
            c = sa.get((k, self.sig_val(t)))
            if not c:
                return False
            if t in c:
                c.remove(t)
            else:
                todo.append((c.pop(), t))
        for x, y in todo:
            if not self.eqv(x, y):
                return False
        return True

    def eqnode(self, na, nb):
        k = (na, nb)
        if k in self.memo_node:
            return self.memo_node[k]
        self.memo_node[k] = True
        r = self._eqnode(na, nb)
        self.memo_node[k] = r
        return r

    def _eqnode(self, na, nb):
        opa, wa, aa = T.nodes[na]
        opb, wb, ab = T.nodes[nb]
        if opa != opb or wa != wb:
            return False
        if opa == 'var':
            return False
        if opa == 'add':
            return self.eqadd(aa, ab, wa)
        if opa == 'and1':
            return self.pair_terms([(t, 1) for t in aa], [(t, 1) for t in ab])
        if opa == 'eqz':
            return self.eqv(aa, ab)
        if opa in ('ult', 'udiv', 'urem', 'ite'):
            return all(self.eqv(x, y) for x, y in zip(aa, ab))
        if opa == 'mul':
            return self.pair_terms([(t, 1) for t in aa], [(t, 1) for t in ab])
        if opa == 'uf':
            if aa[0] != ab[0] or len(aa) != len(ab):
                return False
            return all(self.eqv(x, y) for x, y in zip(aa[1:], ab[1:]))
        return False


def reduce_pairs(pairs, seed=0):
    """returns (ok, residual_pairs). ok=False: simulation found a difference or structure could not be matched."""
    diff = [(g, e) for g, e in pairs if g != e]
    if not diff:
        return True, []
    c = Congruence(seed)
    c._init_evals([x for p in diff for x in p])
    for g, e in diff:
        if not c.eqv(g, e):
            return False, []
    return True, c.residual
