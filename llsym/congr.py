# llsym: signature-guided structural congruence.
#
# Two terms that were built by structurally parallel computations but differ in a few small input cones (typically
# counter arithmetic that the optimiser narrowed or widened) are hard for a bit-blasting solver as one miter, yet
# trivially equal by congruence: descend both DAGs in lockstep, pairing differing sub-terms by their simulation
# signature (concrete evaluation under a few random assignments - used only to *guess* the pairing), and collect the
# pairs where the structure diverges as residual obligations. If every residual pair is proved equal by the solver,
# the original terms are equal (congruence: equal arguments give equal results).  A failed residual says nothing
# about the original pair; the caller then falls back to the full query.
import os
import random
import time
from . import terms as T


def biased(rng, w):
    """random value whose 32-bit words are often at carry/borrow corners (all ones, zero, +-1, +-small)"""
    r = 0
    for i in range(0, w, 32):
        n = min(32, w - i)
        p = rng.random()
        if p < 0.4:
            x = rng.getrandbits(n)
        elif p < 0.65:
            x = (1 << n) - 1 - rng.choice([0, 0, 0, 1, 2, 3, 4])
        elif p < 0.8:
            x = rng.choice([0, 0, 1, 2, 3, 4])
        else:
            x = rng.getrandbits(n) | ((1 << n) - 1) ^ ((1 << rng.randrange(n)) - 1)
        r |= (x & ((1 << n) - 1)) << i
    return r


class Congruence:
    def __init__(self, seed=0, nsim=7, extra_vars=None):
        self.rng = random.Random(seed)
        self.nsim = nsim
        self.evals = None
        self.memo = {}
        self.memo_node = {}
        self.sigcache = {}
        self.residual = []       # (value_a, value_b)
        self.resset = set()
        self.failed = False
        self.deadline = None

    def _init_evals(self, vals, pc=()):
        self._init_evals0(list(vals) + [c for c, v in pc])
        if pc:
            # variables the path condition talks about are re-sampled until it holds; all others keep their corner values
            pcvars, _ = T.support([c for c, v in pc])
            keep = []
            for ev in self.evals:
                ok = all(ev.val(c) == (1 if v else 0) for c, v in pc)
                tries = 0
                while not ok and tries < 60:
                    tries += 1
                    asg = dict(ev.assign)
                    for n in pcvars:
                        w = self.names[n]
                        asg[n] = self.rng.getrandbits(w) if tries % 2 else biased(self.rng, w)
                    ev = T.Evaluator(asg)
                    ok = all(ev.val(c) == (1 if v else 0) for c, v in pc)
                if ok:
                    keep.append(ev)
            self.evals = keep

    def _init_evals0(self, vals):
        names = {}
        seen = set()
        stack = []
        for v in vals:
            stack.extend(T.value_deps(v))
        while stack:
            j = stack.pop()
            if j in seen:
                continue
            seen.add(j)
            op, w, args = T.nodes[j]
            if op == 'var':
                names[args] = w
            else:
                stack.extend(T.node_deps(j))
        self.names = names
        self.evals = []
        for i in range(self.nsim):
            if i == 0:
                asg = {n: self.rng.getrandbits(w) for n, w in names.items()}
            elif i <= 5:
                # deterministic carry/borrow corners: every 32-bit word = -1, -2, -3, -4, 0
                pat = [0xffffffff, 0xfffffffe, 0xfffffffd, 0xfffffffc, 0][i - 1]
                asg = {n: int.from_bytes(pat.to_bytes(4, 'little') * ((w + 31) // 32), 'little') & ((1 << w) - 1) for n, w in names.items()}
            else:
                asg = {n: biased(self.rng, w) for n, w in names.items()}
            self.evals.append(T.Evaluator(asg))

    def sig_node(self, nid):
        return tuple(ev.node(nid) for ev in self.evals)

    def sig_val(self, v):
        r = self.sigcache.get(v)
        if r is None:
            r = tuple(ev.val(v) for ev in self.evals)
            self.sigcache[v] = r
        return r

    def add_residual(self, a, b):
        if self.sig_val(a) != self.sig_val(b):
            return False            # definitely different under simulation: not a usable residual
        k = (a, b)
        if k not in self.resset:
            self.resset.add(k)
            self.residual.append(k)
        return True

    # ------------------------------------------------------------------
    def eqv(self, a, b):
        """try to justify a == b structurally; returns False if simulation shows they differ"""
        if a == b:
            return True
        k = (a, b)
        r = self.memo.get(k)
        if r is not None:
            return r
        if self.deadline is not None and time.time() > self.deadline:
            raise TimeoutError('congruence walk budget exceeded')
        r = self._eqv(a, b)
        self.memo[k] = r
        return r

    def _eqv(self, a, b):
        if T.width(a) != T.width(b):
            return False
        bounds = T.boundaries([a, b])
        pa = T._pieces(a, bounds)
        pb = T._pieces(b, bounds)
        for x, y in zip(pa, pb):
            if x == y:
                continue
            if not self.eqpiece(x, y):
                if not self.add_residual((x,), (y,)):
                    return False
        return True

    def eqpiece(self, x, y):
        """x, y raw segments of equal width; True if justified structurally (possibly adding finer residuals)"""
        lx, cx, n = x
        ly, cy, _ = y
        if cx != cy:
            return False
        sx = set(lx)
        sy = set(ly)
        ox = [l for l in lx if l not in sy]
        oy = [l for l in ly if l not in sx]
        if len(ox) != len(oy) or not ox:
            return False
        # 1. pair by (lo, signature of the whole node): reliable even for 1-bit slices
        pairs = []
        kx = {}
        for l in ox:
            kx.setdefault((l[1], T.nodes[l[0]][1], self.sig_node(l[0])), []).append(l)
        rest_y = []
        for l in oy:
            k = (l[1], T.nodes[l[0]][1], self.sig_node(l[0]))
            c = kx.get(k)
            if c:
                pairs.append((c.pop(), l))
            else:
                rest_y.append(l)
        rest_x = [l for c in kx.values() for l in c]
        # 2. leftovers: pair by the signature of the slice itself (positions may differ)
        if rest_x:
            m = (1 << n) - 1

            def key(l):
                nid, lo = l
                return tuple((s >> lo) & m for s in self.sig_node(nid))
            sx = {}
            for l in rest_x:
                sx.setdefault(key(l), []).append(l)
            sy = {}
            for l in rest_y:
                sy.setdefault(key(l), []).append(l)
            if set(sx) != set(sy):
                return False
            for k in sx:
                if len(sx[k]) != 1 or len(sy[k]) != 1:
                    return False
                pairs.append((sx[k][0], sy[k][0]))
        for (na, lo), (nb, lob) in pairs:
            if lo != lob:
                if not self.shifted_residual(na, lo, nb, lob, n):
                    return False
            elif not self.eqslice(na, nb, lo, n):
                return False
        return True

    def shifted_residual(self, na, loa, nb, lob, n):
        # differently positioned slices of two nodes: prove the widest aligned range once (implies every sub-slice)
        wa = T.nodes[na][1]
        wb = T.nodes[nb][1]
        d = min(loa, lob)
        a0, b0 = loa - d, lob - d
        m = min(wa - a0, wb - b0)
        A = T.extract(T.full(na), a0, m)
        B = T.extract(T.full(nb), b0, m)
        if self.sig_val(A) == self.sig_val(B):
            return self.add_residual(A, B)
        return self.add_residual(T.extract(T.full(na), loa, n), T.extract(T.full(nb), lob, n))

    def eqslice(self, na, nb, lo, n):
        if na == nb:
            return True
        k = (na, nb, lo, n)
        r = self.memo.get(k)
        if r is not None:
            return r
        r = self._eqslice(na, nb, lo, n)
        self.memo[k] = r
        return r

    def _eqslice(self, na, nb, lo, n):
        opa, wa, aa = T.nodes[na]
        opb, wb, ab = T.nodes[nb]
        if wa == wb and opa == opb and self.sig_node(na) == self.sig_node(nb):
            # the whole nodes look equal: justify that (memoised per node pair, linear in the DAG size)
            if self.eqnode(na, nb):
                return True
        if lo == 0 and n == wa and n == wb:
            return self.add_residual(T.full(na), T.full(nb))
        if opa == 'add' and opb == 'add':
            # bits [lo, lo+n) of a sum depend only on the low lo+n bits of the summands
            if self.eqadd(aa, ab, lo + n):
                return True
        return self.add_residual(T.extract(T.full(na), lo, n), T.extract(T.full(nb), lo, n))

    def eqadd(self, aa, ab, n):
        M = (1 << n) - 1
        ca, cb = aa[1] & M, ab[1] & M
        # pair summands by (coefficient, signature); whatever cannot be paired is summed up on each side and the two
        # partial sums become one residual (typically the counter words, a tiny cone).
        # stage 1 pairs on the signature of the untruncated summand (robust even when n is tiny), stage 2 on the
        # signature of the low n bits (only when n is wide enough for signatures to be meaningful)
        xa = [(t, k & M) for t, k in aa[0] if k & M]
        xb = [(t, k & M) for t, k in ab[0] if k & M]
        todo = []
        for stage in (1, 2):
            if stage == 2 and n < 16:
                break
            sa = {}
            for t, k in xa:
                key = (k, T.width(t), self.sig_val(t)) if stage == 1 else (k, self.sig_val(T.extract(t, 0, n)))
                sa.setdefault(key, []).append(t)
            nb = []
            for t, k in xb:
                key = (k, T.width(t), self.sig_val(t)) if stage == 1 else (k, self.sig_val(T.extract(t, 0, n)))
                c = sa.get(key)
                if c:
                    if t in c:
                        c.remove(t)
                    else:
                        todo.append((T.extract(c.pop(), 0, n), T.extract(t, 0, n)))
                else:
                    nb.append((t, k))
            xa = [(t, key[0]) for key, c in sa.items() for t in c]
            xb = nb
        if xa or xb or ca != cb:
            A = T.lin(n, [(T.extract(t, 0, n), k) for t, k in xa], ca)
            B = T.lin(n, [(T.extract(t, 0, n), k) for t, k in xb], cb)
            if A != B:
                if not self.add_residual(A, B):
                    return False
        for x, y in todo:
            if not self.eqv(x, y):
                return False
        return True

    def pair_terms(self, ta, tb):
        """pair (term, coef) lists by (coef, signature); recursively justify the paired terms"""
        if len(ta) != len(tb):
            return False
        sa = {}
        for t, k in ta:
            sa.setdefault((k, self.sig_val(t)), []).append(t)
        todo = []
        for t, k in tb:
            c = sa.get((k, self.sig_val(t)))
            if not c:
                return False
            if t in c:
                c.remove(t)
            else:
                todo.append((c.pop(), t))
        for x, y in todo:
            if not self.eqv(x, y):
                return False
        return True

    def eqnode(self, na, nb):
        k = (na, nb)
        if k in self.memo_node:
            return self.memo_node[k]
        self.memo_node[k] = True
        r = self._eqnode(na, nb)
        self.memo_node[k] = r
        return r

    def _eqnode(self, na, nb):
        opa, wa, aa = T.nodes[na]
        opb, wb, ab = T.nodes[nb]
        if opa != opb or wa != wb:
            return False
        if opa == 'var':
            return False
        if opa == 'add':
            return self.eqadd(aa, ab, wa)
        if opa == 'and1':
            return self.pair_terms([(t, 1) for t in aa], [(t, 1) for t in ab])
        if opa == 'eqz' or opa == 'def':
            return self.eqv(aa, ab)
        if opa in ('ult', 'udiv', 'urem', 'ite'):
            return all(self.eqv(x, y) for x, y in zip(aa, ab))
        if opa == 'mul':
            return self.pair_terms([(t, 1) for t in aa], [(t, 1) for t in ab])
        if opa == 'uf':
            if aa[0] != ab[0] or len(aa) != len(ab):
                return False
            return all(self.eqv(x, y) for x, y in zip(aa[1:], ab[1:]))
        return False


WALK_BUDGET_S = 90


def reduce_pairs(pairs, seed=0, pc=()):
    """returns (ok, residual_pairs). ok=False: simulation found a difference or structure could not be matched."""
    diff = [(g, e) for g, e in pairs if g != e]
    if not diff:
        return True, []
    c = Congruence(seed)
    c.deadline = time.time() + WALK_BUDGET_S
    try:
        c._init_evals([x for p in diff for x in p], pc)
        if not c.evals:
            return False, []
        for g, e in diff:
            if not c.eqv(g, e):
                return False, []
    except TimeoutError:
        return False, []
    return True, c.residual


def models_of_pc(pc, names, k, rng):
    """k diverse assignments satisfying the path condition, from the solver (used when random / corner vectors do not
    satisfy it, e.g. 'the low counter word carried'); variables the path condition does not mention stay random"""
    import z3
    pcvars = T.support([c for c, v in pc])[0]
    out = []
    s = z3.Solver()
    s.set('timeout', 10000)
    for c, v in pc:
        s.add(T.z3val(c) == (1 if v else 0))
    for i in range(k):
        s.push()
        # diversity: pin a few random low bits of each path-condition variable
        for n in pcvars:
            w = names.get(n)
            if w and i:
                b = rng.randrange(w)
                s.add(z3.Extract(b, b, z3.BitVec(n, w)) == rng.getrandbits(1))
        from .check import z3_check
        r = z3_check(s, 10)
        if r != z3.sat:
            s.pop()
            if i == 0:
                return out
            continue
        m = s.model()
        asg = {n: (rng.getrandbits(w) if i % 2 else biased(rng, w)) for n, w in names.items()}
        for n in pcvars:
            w = names.get(n)
            if w:
                v = m.eval(z3.BitVec(n, w), model_completion=True)
                asg[n] = v.as_long()
        s.pop()
        out.append(asg)
    return out


def corner_assignments(names, rng, nrand=4):
    """assignments used both as simulation signatures and as strengthened (constant-input) queries"""
    out = []
    for pat in (0xffffffff, 0xfffffffe, 0xfffffffd, 0xfffffffc, 0, 1, 0x80000000, 0x7fffffff):
        out.append({n: int.from_bytes(pat.to_bytes(4, 'little') * ((w + 31) // 32), 'little') & ((1 << w) - 1) for n, w in names.items()})
    for _ in range(nrand):
        out.append({n: rng.getrandbits(w) for n, w in names.items()})
    for _ in range(nrand * 3):
        out.append({n: biased(rng, w) for n, w in names.items()})
    # mixed: each variable independently takes a corner or a random value
    for _ in range(nrand * 3):
        a = {}
        for n, w in names.items():
            p = rng.random()
            if p < 0.5:
                a[n] = rng.getrandbits(w)
            else:
                pat = rng.choice([0xffffffff, 0xfffffffe, 0xfffffffd, 0xfffffffc, 0, 1, 2, 3])
                a[n] = int.from_bytes(pat.to_bytes(4, 'little') * ((w + 31) // 32), 'little') & ((1 << w) - 1)
        out.append(a)
    return out


def simulate_difference(pairs, pc, seed=0):
    """try constant inputs: returns an assignment under which pc holds and some pair differs, else None"""
    vals = [x for p in pairs for x in p] + [c for c, v in pc]
    names = {}
    seen = set()
    stack = []
    for v in vals:
        stack.extend(T.value_deps(v))
    while stack:
        j = stack.pop()
        if j in seen:
            continue
        seen.add(j)
        op, w, args = T.nodes[j]
        if op == 'var':
            names[args] = w
        else:
            stack.extend(T.node_deps(j))
    # the same pair of terms under another dispatcher arm (path conditions differing only in CPU-feature bits the terms do not
    # mention) evaluates to the same values: do not repeat the (expensive, whole-DAG) evaluations
    if 'cpu' not in T.support([x for p in pairs for x in p])[0]:
        skey = ('sim', tuple(pairs), tuple((c, v) for c, v in pc if T.support([c])[0] != {'cpu'}))
        if skey in _PC_MODEL_CACHE:
            return None
    else:
        skey = None
    r_ = _simulate_difference(pairs, pc, names, seed)
    if r_ is None and skey is not None:
        _PC_MODEL_CACHE[skey] = True
    return r_


def _simulate_difference(pairs, pc, names, seed):
    rng = random.Random(seed)
    cands = corner_assignments(names, rng, nrand=2)
    # cheap order: random vectors first (a wrong core differs on almost every input), then the carry corners
    cands = [cands[8], cands[9]] + cands[:2] + cands[16:17]
    if os.environ.get('VERIF_DEBUG'):
        print('DEBUG simulate_difference: %d nodes' % T.support([x for p in pairs for x in p])[1], flush=True)
    if T.support([x for p in pairs for x in p])[1] > 1500:
        # a whole-DAG evaluation of a multi-block hash costs seconds: one random vector (a wrong core differs almost everywhere)
        # and one carry corner; boundary slips in such DAGs are found through refuted small-cone lemmas instead
        cands = [cands[0], cands[2]]
    repair = None       # an assignment of the path-condition variables that satisfies the path condition (from the solver, once)
    for asg in cands:
        ev = T.Evaluator(asg)
        ok = all(ev.val(c) == (1 if v else 0) for c, v in pc)
        if not ok:
            # e.g. a random CPU-feature word almost never selects the arm under test: keep the data, repair the selector variables
            if repair is None:
                key = ('pcmodel', tuple(pc))
                if key not in _PC_MODEL_CACHE:
                    ms = models_of_pc(pc, names, 1, random.Random(seed + 1)) if pc else []
                    pcvars = T.support([c for c, v in pc])[0] if pc else set()
                    _PC_MODEL_CACHE[key] = {n: ms[0][n] for n in pcvars if n in ms[0]} if ms else {}
                repair = _PC_MODEL_CACHE[key]
            if not repair:
                continue
            asg = dict(asg, **repair)
            ev = T.Evaluator(asg)
            if not all(ev.val(c) == (1 if v else 0) for c, v in pc):
                continue
        for g, e in pairs:
            if ev.val(g) != ev.val(e):
                return asg
    return None


_PC_MODEL_CACHE = {}


# ------------------------------------------------------------------------------------------------------------
# Simulation-guided merging of small cones (SAT sweeping restricted to cheap nodes) + substitution.
#
# Structurally parallel computations usually differ only in small input cones (counter arithmetic that the optimiser
# narrowed, widened or split). Find those cones by simulation signature, prove each candidate equality with the
# solver (tiny queries), substitute the proved representative and rebuild both sides through the canonicalising
# constructors; the big DAGs then become syntactically identical and never reach the solver.

def _levels(roots):
    level = {}
    order = []
    stack = list(roots)
    while stack:
        j = stack[-1]
        if j in level:
            stack.pop()
            continue
        deps = T.node_deps(j)
        todo = [d for d in deps if d not in level]
        if todo:
            stack.extend(todo)
            continue
        level[j] = 0 if T.nodes[j][0] == 'var' else 1 + max([level[d] for d in deps] + [0])
        order.append(j)
        stack.pop()
    return level, order


def _cone_sizes(order, cap=64):
    """number of distinct non-variable nodes in the fan-in cone of each node (capped)"""
    cones = {}
    size = {}
    for j in order:
        if T.nodes[j][0] == 'var':
            cones[j] = frozenset()
            size[j] = 0
            continue
        acc = {j}
        big = False
        for d in T.node_deps(j):
            c = cones[d]
            if c is None:
                big = True
                break
            acc |= c
            if len(acc) > cap:
                big = True
                break
        if big:
            cones[j] = None
            size[j] = cap + 1
        else:
            cones[j] = frozenset(acc)
            size[j] = len(acc)
    return size


def rebuild(vals, mapping):
    """apply slice substitutions {(node, lo, n): value} bottom-up through the canonicalising constructors"""
    roots = set()
    for v in vals:
        roots.update(T.value_deps(v))
    for rep in mapping.values():
        roots.update(T.value_deps(rep))
    level, order = _levels(roots)
    bynode = {}
    for (nid, a, m), rep in mapping.items():
        bynode.setdefault(nid, []).append((a, m, rep))
    dirty = set()
    for j in order:
        if j in bynode or any(d in dirty for d in T.node_deps(j)):
            dirty.add(j)
    memo = {}

    def leaf(nid, lo, n):
        """value of node[lo:lo+n] after substitution"""
        for a, m, rep in bynode.get(nid, ()):
            if a <= lo and lo + n <= a + m:
                return T.extract(sv(rep), lo - a, n)
        if bynode.get(nid):
            # partially covered: split at the mapped boundaries
            cuts = sorted({lo, lo + n} | {x for a, m, rep in bynode[nid] for x in (a, a + m) if lo < x < lo + n})
            if len(cuts) > 2:
                return T.concat([leaf(nid, cuts[i], cuts[i + 1] - cuts[i]) for i in range(len(cuts) - 1)])
        return T.extract(nv(nid), lo, n)

    def sv(v):
        segs = []
        changed = False
        for l, c, n in v:
            if any(nid in dirty for nid, lo in l):
                changed = True
                parts = [leaf(nid, lo, n) for nid, lo in l]
                if c:
                    parts.append(T.const(c, n))
                segs.extend(T.bxor(*parts) if len(parts) > 1 else parts[0])
            else:
                segs.append((l, c, n))
        return T.norm(segs) if changed else v

    def nv(j):
        if j not in dirty:
            return T.full(j)
        r = memo.get(j)
        if r is not None:
            return r
        op, w, args = T.nodes[j]
        if not any(d in dirty for d in T.node_deps(j)):
            r = T.full(j)
        elif op == 'add':
            r = T.lin(w, [(sv(t), k) for t, k in args[0]], args[1])
        elif op == 'and1':
            r = T.const(1, 1)
            for a in args:
                r = T.and1(r, sv(a))
        elif op == 'eqz':
            r = T.eqz(sv(args))
        elif op == 'ult':
            r = T.ult(sv(args[0]), sv(args[1]))
        elif op == 'ite':
            r = T.ite(sv(args[0]), sv(args[1]), sv(args[2]))
        elif op == 'mul':
            r = T.mul(sv(args[0]), sv(args[1]))
        elif op == 'udiv':
            r = T.udiv(sv(args[0]), sv(args[1]))
        elif op == 'urem':
            r = T.urem(sv(args[0]), sv(args[1]))
        elif op == 'uf':
            r = T.uf(args[0], w, [sv(a) for a in args[1:]])
        else:
            raise Exception('rebuild ' + op)
        memo[j] = r
        return r
    for j in order:
        if j in dirty:
            nv(j)
    return [sv(v) for v in vals]


def merge_small_cones(pairs, pc=(), maxcone=12, seed=0, solve=None, maxcand=400):
    """returns (new_pairs, n_merged, n_queries). solve(pairs, pc) -> 'unsat'/... proves a list of equalities at once"""
    vals = [x for p in pairs for x in p]
    roots = set()
    for v in vals:
        roots.update(T.value_deps(v))
    for c, _ in pc:
        roots.update(T.value_deps(c))
    level, order = _levels(roots)
    csize = _cone_sizes(order)
    cheap = [j for j in order if T.nodes[j][0] != 'var' and csize[j] <= maxcone]
    if not cheap:
        return pairs, 0, 0
    names = {T.nodes[j][2]: T.nodes[j][1] for j in order if T.nodes[j][0] == 'var'}
    rng = random.Random(seed)
    asgs = corner_assignments(names, rng, nrand=2)
    evals = []
    for a in asgs:
        ev = T.Evaluator(a)
        if all(ev.val(c) == (1 if v else 0) for c, v in pc):
            evals.append(ev)
    tries = 0
    while len(evals) < 6 and tries < 300:
        tries += 1
        ev = T.Evaluator({n: (rng.getrandbits(w) if tries % 2 else biased(rng, w)) for n, w in names.items()})
        if all(ev.val(c) == (1 if v else 0) for c, v in pc):
            evals.append(ev)
    if not evals:
        return pairs, 0, 0

    def sig(v):
        return (T.width(v),) + tuple(ev.val(v) for ev in evals)
    # entities: whole cheap nodes and their word-aligned slices; representatives additionally: word slices of variables
    cands = {}

    def addc(v, rank):
        s = sig(v)
        cur = cands.get(s)
        if cur is None or rank < cur[0]:
            cands[s] = (rank, v)

    def entities(j):
        w = T.nodes[j][1]
        out = [(0, w)]
        for g in (32, 64):
            if w > g and w % g == 0 and w <= 1024:
                out += [(g * i, g) for i in range(w // g)]
        return out
    for j in order:
        if T.nodes[j][0] == 'var':
            f = T.full(j)
            for a, m in entities(j):
                addc(T.extract(f, a, m), (0, 0, j, a))
    for j in cheap:
        f = T.full(j)
        for a, m in entities(j):
            addc(T.extract(f, a, m), (1 if m == T.nodes[j][1] else 2, csize[j], j, a))
    obligations = []
    for j in cheap:
        f = T.full(j)
        for a, m in entities(j):
            e = T.extract(f, a, m)
            rank, rep = cands[sig(e)]
            if rep != e and rank < (1 if m == T.nodes[j][1] else 2, csize[j], j, a):
                obligations.append(((j, a, m), e, rep))
        if len(obligations) >= maxcand:
            break
    if not obligations:
        return pairs, 0, 0
    mapping = {}
    nq = 1
    st = solve([(e, rep) for k, e, rep in obligations], pc)
    if st == 'unsat':
        for k, e, rep in obligations:
            mapping[k] = rep
    else:
        for k, e, rep in obligations:
            nq += 1
            if solve([(e, rep)], pc) == 'unsat':
                mapping[k] = rep
    # a whole-node substitution makes slice substitutions of the same node redundant
    whole = {k[0] for k in mapping if k[1] == 0 and k[2] == T.nodes[k[0]][1]}
    mapping = {k: v for k, v in mapping.items() if not (k[0] in whole and not (k[1] == 0 and k[2] == T.nodes[k[0]][1]))}
    if not mapping:
        return pairs, 0, nq
    flat = rebuild(vals, mapping)
    newpairs = [(flat[2 * i], flat[2 * i + 1]) for i in range(len(pairs))]
    return newpairs, len(mapping), nq


REFUTERS = []       # models that refuted a candidate lemma in the last discover_aliases call: prime candidates for a global counterexample


def discover_aliases(pairs, pc=(), maxcone=12, seed=0, solve=None, maxcand=600, both_sides=False):
    """find small-cone equalities between the reference side (second components) and the implementation side (first
    components) by simulation signature, prove them with the solver, and return them as construction-time aliases
    (reference entity -> implementation form): (node_alias {nid: value}, slice_alias {nid: [(lo, n, value)]}, n_queries)"""
    impl_vals = [g for g, e in pairs]
    spec_vals = [e for g, e in pairs]
    del REFUTERS[:]
    roots_i = set()
    for v in impl_vals:
        roots_i.update(T.value_deps(v))
    roots_s = set()
    for v in spec_vals:
        roots_s.update(T.value_deps(v))
    roots = set(roots_i) | set(roots_s)
    for c, _ in pc:
        roots.update(T.value_deps(c))
    level, order = _levels(roots)
    li, oi = _levels(roots_i)
    impl_nodes = set(oi)
    csize = _cone_sizes(order)
    # control cones only: nodes that depend on narrow variables (counters, lengths, positions) and on nothing wide (keys,
    # chaining values, message bytes) - that is where optimiser-dependent arithmetic shapes live
    narrow = {}
    for j in order:
        op, w, args = T.nodes[j]
        if op == 'var':
            narrow[j] = w <= 128
        else:
            narrow[j] = all(narrow[d] for d in T.node_deps(j))
    cheap = [j for j in order if T.nodes[j][0] != 'var' and csize[j] <= maxcone and narrow[j]]
    if not cheap:
        return {}, {}, 0
    names = {T.nodes[j][2]: T.nodes[j][1] for j in order if T.nodes[j][0] == 'var'}
    rng = random.Random(seed)
    pcvars = T.support([c for c, v in pc])[0] if pc else set()
    evals = []
    for a in corner_assignments(names, rng, nrand=2):
        ev = T.Evaluator(a)
        ok = all(ev.val(c) == (1 if v else 0) for c, v in pc)
        tries = 0
        while not ok and tries < 40:
            tries += 1
            a2 = dict(a)
            for n in pcvars:
                a2[n] = rng.getrandbits(names[n]) if tries % 2 else biased(rng, names[n])
            ev = T.Evaluator(a2)
            ok = all(ev.val(c) == (1 if v else 0) for c, v in pc)
        if ok:
            evals.append(ev)
    if len(evals) < 4 and pc:
        for asg in models_of_pc(pc, names, 8, rng):
            ev = T.Evaluator(asg)
            if all(ev.val(c) == (1 if v else 0) for c, v in pc):
                evals.append(ev)
    if len(evals) < 3:
        return {}, {}, 0

    def entities(j):
        w = T.nodes[j][1]
        out = [(0, w)]
        for g in (32, 64):
            if w > g and w % g == 0 and w <= 1024:
                out += [(g * i, g) for i in range(w // g)]
        return out
    proved = []
    nq = 0
    done = set()
    # counterexample-guided refinement (as in SAT sweeping): a refuted candidate's model becomes a new simulation vector
    for rnd in range(4):
        def sig(v):
            return (T.width(v),) + tuple(ev.val(v) for ev in evals)
        cands = {}

        def addc(v, rank):
            s_ = sig(v)
            cur = cands.get(s_)
            if cur is None or rank < cur[0]:
                cands[s_] = (rank, v)
        # constants are the best representatives (a flag that is fixed by the path condition becomes a constant)
        for wc in (1, 32, 64):
            addc(T.const(0, wc), (-1, 0, 0, 0))
        addc(T.const(1, 1), (-1, 0, 0, 1))
        for j in order:
            if T.nodes[j][0] == 'var':
                f = T.full(j)
                for a, m in entities(j):
                    addc(T.extract(f, a, m), (0, 0, j, a))
        for j in cheap:
            if both_sides or j in impl_nodes:
                f = T.full(j)
                for a, m in entities(j):
                    addc(T.extract(f, a, m), (1 if m == T.nodes[j][1] else 2, csize[j], j, a))
        obligations = []
        for j in cheap:
            if j in impl_nodes and not both_sides:
                continue
            f = T.full(j)
            for a, m in entities(j):
                if (j, a, m) in done:
                    continue
                e = T.extract(f, a, m)
                hit = cands.get(sig(e))
                if hit is not None and hit[1] != e and j not in set(T.value_deps(hit[1])):
                    if both_sides and not (hit[0] < (1 if m == T.nodes[j][1] else 2, csize[j], j, a)):
                        continue
                    obligations.append(((j, a, m), e, hit[1]))
            if len(obligations) >= maxcand:
                break
        if not obligations:
            break
        refuted = 0
        for ob in obligations:
            nq += 1
            r = solve([(ob[1], ob[2])], pc)
            st, model = (r if isinstance(r, tuple) else (r, None))
            if st == 'unsat':
                proved.append(ob)
                done.add(ob[0])
            elif st == 'sat' and model:
                refuted += 1
                asg = {n: model.get(n, 0) for n in names}
                evals.append(T.Evaluator(asg))
                REFUTERS.append(asg)
        if not refuted:
            break
    node_alias = {}
    slice_alias = {}
    # orientation must be acyclic: a node that serves as (part of) a representative is never rewritten itself
    edges = {}      # rewritten node -> nodes its representatives mention

    def reaches(src, target, seen=None):
        seen = seen or set()
        if src == target:
            return True
        if src in seen:
            return False
        seen.add(src)
        return any(reaches(x, target, seen) for x in edges.get(src, ()))
    proved.sort(key=lambda ob: (0 if (ob[0][1] == 0 and ob[0][2] == T.nodes[ob[0][0]][1]) else 1, -ob[0][2]))
    for (j, a, m), e, rep in proved:
        deps = set(T.value_deps(rep))
        # chains are fine (a -> b, b[hi] -> c); cycles are not
        if any(reaches(d, j) for d in deps):
            continue
        if a == 0 and m == T.nodes[j][1]:
            node_alias[j] = rep
        elif j in node_alias:
            continue
        else:
            slice_alias.setdefault(j, []).append((a, m, rep))
        edges.setdefault(j, set()).update(deps)
    return node_alias, slice_alias, nq
