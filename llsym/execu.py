# llsym: symbolic executor for LLVM IR over the canonical term layer.
#
# * memory: objects with concrete sizes, byte-granular contents (8-bit terms); a pointer is the 64-bit term
#   "base_k + constant" where base_k is a free symbolic variable per object, so no result can silently depend on
#   an address, and every access is checked against object bounds and guaranteed alignment.
# * control: concrete conditions are followed; symbolic conditions fork (re-execution with a decision prefix);
#   each path carries its path condition as a list of (1-bit term, bool).
# * calls: IR functions are executed recursively; intrinsics and a few std functions are modelled; panic entry
#   points end the path in state "panic"; summaries (python callables) can replace any function by name.
import re
from . import terms as T
from .ir import Unsupported, Module


class Panic(Exception):
    def __init__(self, name, detail=''):
        Exception.__init__(self, name)
        self.name = name
        self.detail = detail


class MemoryError_(Exception):
    """out-of-bounds / misaligned / dangling access: reported as a memory-discipline violation candidate"""

    def __init__(self, kind, detail):
        Exception.__init__(self, kind + ': ' + detail)
        self.kind = kind
        self.detail = detail


class Inconclusive(Exception):
    pass


class Obj:
    __slots__ = ('id', 'size', 'align', 'data', 'name', 'writable', 'kind', 'base', 'live', 'func')

    def __init__(self, oid, size, align, name, kind, writable=True, concrete=False):
        self.id = oid
        self.size = size
        self.align = align
        self.data = [None] * size
        self.name = name
        self.kind = kind        # 'alloca' | 'global' | 'arg' | 'func' | 'heap'
        self.writable = writable
        self.live = True
        self.func = None
        if concrete:
            # concrete layout: object k lives at k * 2^32 (+1 for byte-aligned caller buffers, so that no alignment
            # beyond the guaranteed one is accidentally provided)
            self.base = T.const((oid << 32) + (1 if (align == 1 and kind == 'arg') else 0), 64)
        else:
            self.base = T.var('base:%d:%s' % (oid, name), 64)


class PathResult:
    def __init__(self):
        self.status = None      # 'ret' | 'panic:<name>' | 'memerr:<kind>'
        self.ret = None
        self.pc = []
        self.objs = None
        self.detail = ''
        self.decisions = None
        self.ex = None

    def mem(self, obj, off=0, n=None):
        """bits of n bytes of object at offset (LSB first = little endian)"""
        if n is None:
            n = obj.size - off
        return self.ex.read_bytes(obj, off, n)


PANIC_PATTERNS = [
    (re.compile(r'core9panicking|core\.\.panicking'), 'panic'),
    (re.compile(r'slice5index|slice\.\.index'), 'slice_index'),
    (re.compile(r'unwrap_failed|expect_failed'), 'unwrap_failed'),
    (re.compile(r'3str.*slice_error_fail'), 'str_index'),
    (re.compile(r'handle_alloc_error|capacity_overflow'), 'alloc'),
    (re.compile(r'3std9panicking|begin_panic|rust_panic|rust_begin_unwind'), 'panic'),
    (re.compile(r'core3cell.*panic|panic_already'), 'panic'),
    (re.compile(r'copy_from_slice.*len_mismatch_fail|len_mismatch_fail'), 'len_mismatch'),
]


def demangle_hint(name):
    # crude legacy-demangle for messages: _ZN9c2_chacha4guts11refill_wide17h...E -> c2_chacha::guts::refill_wide
    if name.startswith('_ZN'):
        i = 3
        parts = []
        while i < len(name) and name[i].isdigit():
            j = i
            while name[j].isdigit():
                j += 1
            n = int(name[i:j])
            parts.append(name[j:j + n])
            i = j + n
        if parts and re.match(r'h[0-9a-f]{16}$', parts[-1]):
            parts.pop()
        return '::'.join(parts)
    return name


class Exec:
    def __init__(self, module, summaries=None, ext_globals=None, trace=False, concrete_layout=False):
        self.mod = module
        self.concrete_layout = concrete_layout
        self.share_threshold = 0      # > 0: wrap values whose XOR sums exceed this many leaves into sharing nodes
        self.cuts = None              # {(fn, reg, occurrence): [(bit offset, nbits, name)]}: replace those bits by fresh variables
        self.cut_terms = {}           # name -> original term (over the previous cut variables)
        self.ty = module.types
        self.summaries = summaries or {}
        self.summary_res = []       # (compiled regex, fn)
        self.ext_globals = ext_globals or {}
        self.want_trace = trace
        self.stats = {'ins': 0, 'calls': 0, 'forks': 0, 'undef_loads': 0, 'loads': 0, 'stores': 0, 'paths': 0}
        self.max_ins = 50_000_000
        self.access_log = None       # optional set of (objname, 'r'/'w')
        self.align_issues = []       # (fn, text, objname, declared, guaranteed)
        self.global_writes = set()
        self.global_store_log = set()     # (object name, atomic store?, inside a Once initialiser?)
        self.in_once = 0
        self.funcs_run = set()
        self.reset_path([])

    # ---------------------------------------------------------------- per-path state
    def reset_path(self, prefix):
        self.objs = {}
        self.base2obj = {}
        self.globobj = {}
        self.nobj = 0
        self.prefix = list(prefix)
        self.taken = []
        self.taken_keys = []
        self.site_occ = {}
        self.known = {}
        self.pc = []
        self.pending = []
        self.trace = [] if self.want_trace else None
        self.undef_n = 0
        self.fnstack = []
        self.once_done = {}
        self.occ = {}
        self.cut_terms = {}
        self.cut_vals = {}

    def new_obj(self, size, align, name, kind='arg', writable=True, init=None):
        self.nobj += 1
        o = Obj(self.nobj, size, align, name, kind, writable, self.concrete_layout)
        self.objs[o.id] = o
        if not self.concrete_layout:
            self.base2obj[o.base] = o
        if init is not None:
            self.write_bits(o, 0, init)
        return o

    def ptr(self, obj, off=0):
        return T.lin(64, [(obj.base, 1)], off) if off else obj.base

    def write_bits(self, obj, off, bits):
        n = T.width(bits) // 8
        if off < 0 or off + n > obj.size:
            raise MemoryError_('oob', 'write %d bytes at %d of %s[%d]' % (n, off, obj.name, obj.size))
        d = obj.data
        for i in range(n):
            d[off + i] = T.extract(bits, 8 * i, 8)

    def read_bytes(self, obj, off, n):
        if off < 0 or off + n > obj.size:
            raise MemoryError_('oob', 'read %d bytes at %d of %s[%d]' % (n, off, obj.name, obj.size))
        d = obj.data
        parts = []
        for i in range(off, off + n):
            b = d[i]
            if b is None:
                self.undef_n += 1
                self.stats['undef_loads'] += 1
                b = T.var('undef:%s:%d:%d' % (obj.name, i, self.undef_n), 8)
                d[i] = b
            parts.append(b)
        return T.concat(parts)

    # ---------------------------------------------------------------- pointers
    def decode(self, p):
        """pointer term -> (obj, offset) or (None, const)"""
        if T.is_const(p):
            a = T.cval(p)
            if self.concrete_layout and a >> 32:
                o = self.objs.get((a + 4096) >> 32)
                if o is not None:
                    off = a - T.cval(o.base)
                    if off >= 1 << 31:
                        off -= 1 << 32
                    return o, off
            return None, a
        o = self.base2obj.get(p)
        if o is not None:
            return o, 0
        nid = T.single_node(p)
        if nid is not None:
            op, w, args = T.nodes[nid]
            if op == 'ite':
                # pointer chosen by a symbolic condition (e.g. a function table filled from CPU feature tests): fork on it
                return self.decode(args[1] if self.decide(args[0], ('decode-ite-pointer',)) else args[2])
            if op == 'add' and len(args[0]) == 1 and args[0][0][1] == 1:
                o = self.base2obj.get(args[0][0][0])
                if o is not None:
                    off = args[1]
                    if off >> 63:
                        off -= 1 << 64
                    return o, off
        raise Inconclusive('cannot decode pointer ' + T.show(p))

    def access(self, p, n, align, write, ins=None):
        o, off = self.decode(p)
        if o is None:
            raise MemoryError_('null', 'access through constant pointer %#x (%d bytes) in %s' % (off, n, self.fnstack[-1] if self.fnstack else '?'))
        if not o.live:
            raise MemoryError_('dangling', 'access to dead object ' + o.name)
        if off < 0 or off + n > o.size:
            raise MemoryError_('oob', '%s of %d bytes at offset %d of %s[%d] in %s' % ('write' if write else 'read', n, off, o.name, o.size, self.fnstack[-1] if self.fnstack else '?'))
        if write and not o.writable:
            raise MemoryError_('readonly', 'write to read-only object ' + o.name)
        if align and align > 1:
            g = o.align
            if g % align or off % align:
                # guaranteed alignment of (object, offset) is gcd(g, off)
                self.align_issues.append((self.fnstack[-1] if self.fnstack else '?', ins.text if ins else '', o.name, align, g, off))
        if self.access_log is not None:
            self.access_log.add((o.name, o.kind, 'w' if write else 'r'))
        if write and o.kind == 'global':
            self.global_writes.add(o.name)
        return o, off

    # ---------------------------------------------------------------- constants / globals
    def gobj(self, name):
        o = self.globobj.get(name)
        if o is not None:
            return o
        f = self.mod.funcs.get(name)
        if f is not None or name in self.mod.declared:
            o = self.new_obj(1, 1, 'fn:' + name, 'func', False)
            o.func = name
            self.globobj[name] = o
            return o
        g = self.mod.globals.get(name)
        if g is None:
            raise Unsupported('unknown global ' + name)
        if g.external or g.init is None:
            h = self.ext_globals.get(name)
            if h is None:
                for k, v in self.ext_globals.items():
                    if k in name:
                        h = v
                        break
            if h is None:
                raise Unsupported('external global ' + name)
            o = h(self, name, g)
            self.globobj[name] = o
            return o
        size = self.ty.sizeof(g.ty)
        o = self.new_obj(size, g.align, 'g:' + name, 'global', not g.constant)
        self.globobj[name] = o
        self.store_val(g.ty, self.mat(g.init, g.ty), o, 0)
        return o

    def mat(self, c, ty):
        """materialise a parsed constant as a runtime value of type ty"""
        k = c[0]
        if k == 'unsupported':
            raise Unsupported('global initialiser: ' + c[1])
        if k == 'int':
            return T.const(c[2], c[1] if ty[0] != 'ptr' else 64)
        if k == 'gaddr':
            return self.ptr(self.gobj(c[1]), c[2])
        if k == 'zero':
            return self.zero(ty)
        if k == 'undef':
            return self.zero(ty)
        if k == 'bytes':
            return [T.const(b, 8) for b in c[1]]
        if k == 'agg':
            rt = c[1]
            if rt[0] == 'vec' or rt[0] == 'arr':
                return [self.mat(e, self.ty.resolve(rt[2])) for e in c[2]]
            return [self.mat(e, self.ty.resolve(ft)) for e, ft in zip(c[2], rt[1])]
        raise Unsupported('mat %r' % (c,))

    def zero(self, ty):
        ty = self.ty.resolve(ty)
        k = ty[0]
        if k == 'int' or k == 'fp':
            return T.const(0, ty[1])
        if k == 'ptr':
            return T.const(0, 64)
        if k == 'vec' or k == 'arr':
            z = self.zero(ty[2])
            return [z] * ty[1]
        if k == 'struct':
            return [self.zero(f) for f in ty[1]]
        raise Unsupported('zero %r' % (ty,))

    # ---------------------------------------------------------------- typed memory access
    def to_bits(self, ty, v):
        k = ty[0]
        if k == 'int' or k == 'ptr' or k == 'fp':
            return v
        if k == 'vec':
            return T.concat(v)
        raise Unsupported('to_bits %r' % (ty,))

    def from_bits(self, ty, b):
        k = ty[0]
        if k == 'int' or k == 'ptr' or k == 'fp':
            return b
        if k == 'vec':
            w = self.ty.bits(ty[2])
            return [T.extract(b, w * i, w) for i in range(ty[1])]
        raise Unsupported('from_bits %r' % (ty,))

    def store_val(self, ty, v, obj, off):
        ty = self.ty.resolve(ty)
        k = ty[0]
        if k == 'arr':
            es = self.ty.sizeof(ty[2])
            for i, e in enumerate(v):
                self.store_val(ty[2], e, obj, off + i * es)
            return
        if k == 'struct':
            for i, (f, e) in enumerate(zip(ty[1], v)):
                self.store_val(f, e, obj, off + self.ty.field_offset(ty, i))
            return
        b = self.to_bits(ty, v)
        w = T.width(b)
        if w % 8:
            b = T.zext(b, (w + 7) // 8 * 8)
        self.write_bits(obj, off, b)

    def load_val(self, ty, obj, off):
        ty = self.ty.resolve(ty)
        k = ty[0]
        if k == 'arr':
            es = self.ty.sizeof(ty[2])
            return [self.load_val(ty[2], obj, off + i * es) for i in range(ty[1])]
        if k == 'struct':
            return [self.load_val(f, obj, off + self.ty.field_offset(ty, i)) for i, f in enumerate(ty[1])]
        w = self.ty.bits(ty)
        n = (w + 7) // 8
        b = self.read_bytes(obj, off, n)
        if w % 8:
            b = T.extract(b, 0, w)
        return self.from_bits(ty, b)

    # ---------------------------------------------------------------- branching
    def decide(self, c, site=None):
        """branch decision. `site` identifies the branching instruction; decisions are additionally keyed by (site, occurrence on
        this path) so that a path can be re-executed after construction-time lemmas were installed: a condition that now folds to a
        constant (or coincides with an earlier one) must not shift the decisions that follow it"""
        key = None
        if site is not None:
            n = self.site_occ.get(site, 0)
            self.site_occ[site] = n + 1
            key = (site, n)
        replay = getattr(self, 'replay', None)
        if replay is not None and key is not None:
            ch = replay.get(key)
            if ch is not None:
                if T.is_const(c):
                    if bool(T.cval(c)) != ch:
                        raise Inconclusive('an installed lemma contradicts the recorded path at %s' % (site[0],))
                    return ch
                k = self.known.get(c)
                if k is None:
                    k2 = self.known.get(T.bxor(c, T.const(1, 1)))
                    k = None if k2 is None else (not k2)
                if k is not None:
                    if k != ch:
                        raise Inconclusive('an installed lemma contradicts the recorded path at %s' % (site[0],))
                    return ch
                self.taken.append(ch)
                self.taken_keys.append(key)
                self.known[c] = ch
                self.pc.append((c, ch))
                return ch
            # no decision was made here on the recorded path: the condition must be decidable without one
            if T.is_const(c):
                return bool(T.cval(c))
            k = self.known.get(c)
            if k is not None:
                return k
            k = self.known.get(T.bxor(c, T.const(1, 1)))
            if k is not None:
                return not k
            raise Inconclusive('re-execution reached a decision the recorded path did not make at %s' % (site[0],))
        if T.is_const(c):
            return bool(T.cval(c))
        k = self.known.get(c)
        if k is not None:
            return k
        nc = T.bxor(c, T.const(1, 1))
        k = self.known.get(nc)
        if k is not None:
            return not k
        di = len(self.taken)
        if di < len(self.prefix):
            ch = self.prefix[di]
        else:
            ch = True
            self.pending.append(self.taken + [False])
            self.stats['forks'] += 1
        self.taken.append(ch)
        self.taken_keys.append(key)
        self.known[c] = ch
        self.pc.append((c, ch))
        return ch

    def assume(self, c, val=True):
        """record a fact on this path without forking (used by setup code)"""
        if T.is_const(c):
            return
        self.known[c] = val
        self.pc.append((c, val))

    # ---------------------------------------------------------------- exploration driver
    def explore(self, setup, maxpaths=4096):
        """setup(ex) -> (function name, [args]); returns [PathResult]"""
        results = []
        work = [[]]
        self.replay = None
        while work:
            if len(results) >= maxpaths:
                raise Inconclusive('more than %d paths' % maxpaths)
            prefix = work.pop()
            self.reset_path(prefix)
            r = PathResult()
            try:
                fname, args = setup(self)
                r.ret = self.call(fname, args)
                r.status = 'ret'
            except Panic as p:
                r.status = 'panic:' + p.name
                r.detail = p.detail
            except MemoryError_ as m:
                r.status = 'memerr:' + m.kind
                r.detail = m.detail
            r.pc = list(self.pc)
            r.objs = self.objs
            r.decisions = list(self.taken)
            r.decision_keys = {k_: c_ for k_, c_ in zip(self.taken_keys, self.taken) if k_ is not None}
            r.keyed = all(k_ is not None for k_ in self.taken_keys)
            r.ex = self
            r.trace = self.trace
            r.named = dict(getattr(self, 'named', {}))
            results.append(r)
            work.extend(self.pending)
            self.stats['paths'] += 1
            # a caller that only asks "is some failing path reachable?" (overflow-checked builds) can stop after a few of them:
            # a build in which every arithmetic step can fail has thousands of failing paths and each costs a re-execution
            if getattr(self, 'stop_after_failures', 0) and sum(1 for x in results if x.status != 'ret') >= self.stop_after_failures:
                self.truncated = bool(work)
                break
        return results

    def run_single(self, setup, decisions, keys=None):
        """re-execute exactly one path (the given decision sequence; with `keys` the decisions are looked up by branching site and
        occurrence, which stays aligned when installed lemmas fold some conditions); returns its PathResult"""
        self.reset_path(decisions)
        self.replay = keys
        r = PathResult()
        try:
            fname, args = setup(self)
            r.ret = self.call(fname, args)
            r.status = 'ret'
        except Panic as p:
            r.status = 'panic:' + p.name
            r.detail = p.detail
        except MemoryError_ as m:
            r.status = 'memerr:' + m.kind
            r.detail = m.detail
        r.pc = list(self.pc)
        r.objs = self.objs
        r.decisions = list(self.taken)
        r.ex = self
        r.trace = self.trace
        r.named = dict(getattr(self, 'named', {}))
        return r

    # ---------------------------------------------------------------- calls
    def call(self, name, args):
        self.stats['calls'] += 1
        s = self.summaries.get(name)
        if s is None and self.summary_res:
            for rx, fn in self.summary_res:
                if rx.search(name):
                    s = fn
                    break
        if s is not None:
            return s(self, name, args)
        if name.startswith('llvm.'):
            return self.intrinsic(name, args)
        f = self.mod.func(name)
        if f is None:
            return self.external(name, args)
        return self.run(f, args)

    def external(self, name, args):
        for rx, kind in PANIC_PATTERNS:
            if rx.search(name):
                raise Panic(kind, demangle_hint(name) + ' called from ' + (self.fnstack[-1] if self.fnstack else '?'))
        if 'sync4once' in name and name.endswith('4Once4call'):
            # std::sys::sync::once::futex::Once::call(&self, ignore_poison, f: &mut dyn FnMut(&OnceState), location):
            # single-threaded model - run the initialiser through the closure's vtable (call_mut at +32), mark COMPLETE (0)
            once, _ign, data, vt = args[0], args[1], args[2], args[3]
            vo, voff = self.access(vt, 40, 8, False)
            fptr = self.read_bytes(vo, voff + 32, 8)
            fo, foff = self.decode(fptr)
            if fo is None or fo.kind != 'func':
                raise Inconclusive('Once::call: cannot resolve the closure')
            st = self.new_obj(16, 8, 'OnceState', 'alloca', True, init=T.const(0, 128))
            self.stats['once_inits'] = self.stats.get('once_inits', 0) + 1
            self.in_once += 1
            try:
                self.call(fo.func, [data, self.ptr(st)])
            finally:
                self.in_once -= 1
            oo, ooff = self.access(once, 4, 4, True)
            self.write_bits(oo, ooff, T.const(0, 32))
            return None
        if name in ('memcmp', 'bcmp'):
            n = args[2]
            if not T.is_const(n):
                raise Inconclusive('memcmp with symbolic length')
            n = T.cval(n)
            if n == 0:
                return T.const(0, 32)
            oa, offa = self.access(args[0], n, 1, False)
            ob, offb = self.access(args[1], n, 1, False)
            a = self.read_bytes(oa, offa, n)
            b = self.read_bytes(ob, offb, n)
            if name == 'bcmp':
                return T.zext(T.ne(a, b), 32)
            # memcmp: sign of first differing byte, as a chain
            res = T.const(0, 32)
            for i in reversed(range(n)):
                x = T.extract(a, 8 * i, 8)
                y = T.extract(b, 8 * i, 8)
                lt = T.ult(x, y)
                res = T.ite(T.eq(x, y), res, T.ite(lt, T.const(-1, 32), T.const(1, 32)))
            return res
        raise Unsupported('external function ' + name)

    def val(self, env, ty, o):
        if o[0] == 'r':
            try:
                return env[o[1]]
            except KeyError:
                raise Unsupported('undefined register %' + o[1])
        return self.mat(o[1], ty)

    def run(self, f, args):
        if len(args) != len(f.params):
            raise Unsupported('arity mismatch calling ' + f.name)
        env = {}
        for (t, n), v in zip(f.params, args):
            env[n] = v
        self.fnstack.append(f.name)
        self.funcs_run.add(f.name)
        allocas = []
        blocks = f.blocks
        blk = f.entry
        prev = None
        stats = self.stats
        tys = self.ty
        try:
            while True:
                body = blocks[blk]
                # phis first, evaluated simultaneously
                i = 0
                if body and body[0].op == 'phi':
                    upd = []
                    while body[i].op == 'phi':
                        ins = body[i]
                        src = ins.a.get(prev)
                        if src is None:
                            raise Unsupported('phi without incoming edge from %s in %s' % (prev, f.name))
                        upd.append((ins.dst, self.val(env, ins.ty, src)))
                        i += 1
                    for d, v in upd:
                        env[d] = v
                nxt = None
                n = len(body)
                while i < n:
                    ins = body[i]
                    i += 1
                    stats['ins'] += 1
                    op = ins.op
                    if op == 'br':
                        if ins.c is None:
                            nxt = ins.a
                        else:
                            nxt = ins.a if self.decide(self.val(env, ('int', 1), ins.c), (f.name, ins.text)) else ins.b
                        break
                    if op == 'ret':
                        return self.val(env, ins.ty, ins.a) if ins.a is not None else None
                    if op == 'switch':
                        v = self.val(env, ins.ty, ins.a)
                        nxt = None
                        if T.is_const(v):
                            cv = T.cval(v)
                            for k, lab in ins.c:
                                if k == cv:
                                    nxt = lab
                                    break
                        else:
                            for k, lab in ins.c:
                                if self.decide(T.eq(v, T.const(k, ins.ty[1])), (f.name, ins.text, k)):
                                    nxt = lab
                                    break
                        if nxt is None:
                            nxt = ins.b
                        break
                    if op == 'unreachable':
                        raise Inconclusive('reached unreachable in ' + f.name)
                    r = self.step(f, env, ins, allocas)
                    if ins.dst is not None:
                        if self.share_threshold and r is not None and ins.ty is not None and ins.ty[0] in ('vec', 'int'):
                            th = self.share_threshold
                            if ins.ty[0] == 'vec':
                                if any(T.maxleaves(x) > th for x in r):
                                    r = [T.opaque(x) if T.maxleaves(x) > th else x for x in r]
                            elif T.maxleaves(r) > th:
                                r = T.opaque(r)
                        if (self.trace is not None or self.cuts is not None) and ins.ty is not None and ins.ty[0] == 'vec':
                            k = (f.name, ins.dst)
                            occ = self.occ.get(k, 0)
                            self.occ[k] = occ + 1
                            if self.cuts is not None:
                                c = self.cuts.get((f.name, ins.dst, occ))
                                if c:
                                    bits = self.to_bits(ins.ty, r)
                                    for ent in c:
                                        off, nb, nm = ent[0], ent[1], ent[2]
                                        w = T.width(bits)
                                        if nm is None:
                                            # remember this value: a later cut is expressed relative to it
                                            self.cut_vals[(f.name, ins.dst, occ, off)] = T.extract(bits, off, nb)
                                            continue
                                        orig = T.extract(bits, off, nb)
                                        new = T.var(nm, nb)
                                        if len(ent) > 3 and ent[3] is not None:
                                            # virtual cut: (this value XOR partner) is the quantity of interest
                                            partner = self.cut_vals[ent[3]]
                                            orig = T.bxor(orig, partner)
                                            new = T.bxor(new, partner)
                                        self.cut_terms[nm] = orig
                                        bits = T.concat([T.extract(bits, 0, off), new, T.extract(bits, off + nb, w - off - nb)])
                                    r = self.from_bits(ins.ty, bits)
                            if self.trace is not None:
                                self.trace.append((f.name, ins.dst, occ, ins.ty, r))
                        env[ins.dst] = r
                if stats['ins'] > self.max_ins:
                    raise Inconclusive('instruction budget exceeded')
                prev, blk = blk, nxt
        finally:
            self.fnstack.pop()
            for o in allocas:
                o.live = False

    # ---------------------------------------------------------------- single instruction
    def step(self, f, env, ins, allocas):
        op = ins.op
        ty = ins.ty
        if op == 'load':
            p = self.val(env, ('ptr',), ins.a)
            rt_ = self.ty.resolve(ty)
            n = (rt_[1] + 7) // 8 if rt_[0] == 'int' else self.ty.sizeof(ty)      # bytes touched = store size (i56 -> 7), not alloc size
            o, off = self.access(p, n, ins.align, False, ins)
            self.stats['loads'] += 1
            return self.load_val(ty, o, off)
        if op == 'store':
            p = self.val(env, ('ptr',), ins.b)
            rt_ = self.ty.resolve(ty)
            n = (rt_[1] + 7) // 8 if rt_[0] == 'int' else self.ty.sizeof(ty)
            o, off = self.access(p, n, ins.align, True, ins)
            if o.kind == 'global':
                self.global_store_log.add((o.name, bool(ins.x), self.in_once > 0))
            self.stats['stores'] += 1
            self.store_val(ty, self.val(env, ty, ins.a), o, off)
            return None
        if op == 'cmpxchg' or op == 'atomicrmw':
            # one thread is executed: an atomic read-modify-write is its sequential meaning; the store is logged as atomic
            p = self.val(env, ('ptr',), ins.a)
            rt_ = self.ty.resolve(ty)
            n = (rt_[1] + 7) // 8 if rt_[0] == 'int' else self.ty.sizeof(ty)
            o, off = self.access(p, n, ins.align, True, ins)
            if o.kind == 'global':
                self.global_store_log.add((o.name, True, self.in_once > 0))
            old = self.load_val(ty, o, off)
            self.stats['loads'] += 1
            self.stats['stores'] += 1
            if op == 'cmpxchg':
                cmp_ = self.val(env, ty, ins.b)
                new_ = self.val(env, ty, ins.c)
                ok = T.eq(old, cmp_)
                self.store_val(ty, T.ite(ok, new_, old), o, off)
                return [old, ok]
            v = self.val(env, ty, ins.b)
            k = ins.x
            if k == 'xchg':
                nv = v
            elif k == 'add':
                nv = T.add(old, v)
            elif k == 'sub':
                nv = T.sub(old, v)
            elif k == 'and':
                nv = T.band(old, v)
            elif k == 'or':
                nv = T.bor(old, v)
            elif k == 'xor':
                nv = T.bxor(old, v)
            elif k == 'nand':
                nv = T.bnot(T.band(old, v))
            elif k in ('umax', 'umin', 'max', 'min'):
                lt = T.ult(old, v) if k[0] == 'u' else T.slt(old, v)
                nv = T.ite(lt, v, old) if k.endswith('max') else T.ite(lt, old, v)
            else:
                raise Unsupported('atomicrmw ' + str(k))
            self.store_val(ty, nv, o, off)
            return old
        if op == 'getelementptr':
            p = self.val(env, ('ptr',), ins.a)
            cur = ty
            first = True
            terms = [(p, 1)]
            coff = 0
            for it, iv in ins.b:
                v = self.val(env, it, iv)
                if first:
                    sz = self.ty.sizeof(cur)
                    first = False
                else:
                    rt = self.ty.resolve(cur)
                    if rt[0] == 'struct':
                        fi = T.cval(v)
                        coff += self.ty.field_offset(rt, fi)
                        cur = rt[1][fi]
                        continue
                    cur = rt[2]
                    sz = self.ty.sizeof(cur)
                w = T.width(v)
                if T.is_const(v):
                    x = T.cval(v)
                    if x >> (w - 1):
                        x -= 1 << w
                    coff += x * sz
                else:
                    if w < 64:
                        v = T.sext(v, 64)
                    terms.append((v, sz))
            return T.lin(64, terms, coff)
        if op in ('add', 'sub', 'xor', 'and', 'or', 'shl', 'lshr', 'ashr', 'mul', 'udiv', 'urem', 'sdiv', 'srem'):
            a = self.val(env, ty, ins.a)
            b = self.val(env, ty, ins.b)
            if ty[0] == 'vec':
                return [self.binop(op, x, y) for x, y in zip(a, b)]
            return self.binop(op, a, b)
        if op == 'icmp':
            a = self.val(env, ty, ins.a)
            b = self.val(env, ty, ins.b)
            if ty[0] == 'vec':
                return [self.icmp(ins.x, x, y, ty[2]) for x, y in zip(a, b)]
            return self.icmp(ins.x, a, b, ty)
        if op == 'select':
            ct, cv = ins.c
            c = self.val(env, ct, cv)
            a = self.val(env, ty, ins.a)
            b = self.val(env, ty, ins.b)
            if ct[0] == 'vec':
                return [T.ite(cc, x, y) for cc, x, y in zip(c, a, b)]
            if T.is_const(c):
                return a if T.cval(c) else b
            return self.ite_val(ty, c, a, b)
        if op in ('zext', 'sext', 'trunc'):
            v = self.val(env, ins.x, ins.a)
            fn = {'zext': T.zext, 'sext': T.sext, 'trunc': T.trunc}[op]
            if ty[0] == 'vec':
                w = ty[2][1]
                return [fn(x, w) for x in v]
            return fn(v, ty[1])
        if op == 'bitcast':
            v = self.val(env, ins.x, ins.a)
            if ins.x == ty:
                return v
            return self.from_bits(ty, self.to_bits(ins.x, v))
        if op in ('ptrtoint', 'inttoptr'):
            v = self.val(env, ins.x, ins.a)
            if ty[0] == 'vec':
                raise Unsupported('vector ptr cast')
            w = 64 if ty[0] == 'ptr' else ty[1]
            wv = T.width(v)
            if w == wv:
                return v
            return T.trunc(v, w) if w < wv else T.zext(v, w)
        if op == 'freeze':
            return self.val(env, ty, ins.a)
        if op == 'shufflevector':
            a = self.val(env, ins.x, ins.a)
            b = self.val(env, ins.x, ins.b)
            ab = a + b
            z = None
            out = []
            for i in ins.c:
                if i is None:
                    if z is None:
                        z = self.zero(ty[2])
                    out.append(z)
                else:
                    out.append(ab[i])
            return out
        if op == 'extractelement':
            v = self.val(env, ins.x, ins.a)
            i = self.val(env, ('int', 64), ins.b)
            if not T.is_const(i):
                raise Unsupported('symbolic extractelement index')
            return v[T.cval(i)]
        if op == 'insertelement':
            v = list(self.val(env, ty, ins.a))
            e = self.val(env, ty[2], ins.b)
            i = self.val(env, ('int', 64), ins.c)
            if not T.is_const(i):
                raise Unsupported('symbolic insertelement index')
            v[T.cval(i)] = e
            return v
        if op == 'extractvalue':
            v = self.val(env, ins.x, ins.a)
            for i in ins.b:
                v = v[i]
            return v
        if op == 'insertvalue':
            v = self.val(env, ty, ins.a)
            e = self.val(env, None, ins.b) if ins.b[0] == 'r' else None
            if e is None:
                # constant element: need its type
                t = ty
                for i in ins.c:
                    rt = self.ty.resolve(t)
                    t = rt[1][i] if rt[0] == 'struct' else rt[2]
                e = self.mat(ins.b[1], self.ty.resolve(t))

            def put(agg, idx):
                agg = list(agg)
                if len(idx) == 1:
                    agg[idx[0]] = e
                else:
                    agg[idx[0]] = put(agg[idx[0]], idx[1:])
                return agg
            return put(v, ins.c)
        if op == 'alloca':
            size = self.ty.sizeof(ty) * ins.a
            o = self.new_obj(size, ins.align, 'alloca:%s:%s' % (demangle_hint(f.name)[-40:], ins.dst), 'alloca')
            allocas.append(o)
            return o.base
        if op == 'call':
            tgt = ins.a
            args = [self.val(env, t, v) for t, v in ins.b]
            if tgt[0] == 'g':
                name = tgt[1]
            else:
                o, off = self.decode(env[tgt[1]])
                if o is None or o.kind != 'func' or off != 0:
                    raise Inconclusive('indirect call through non-function pointer')
                name = o.func
            return self.call(name, args)
        if op == 'fence' or op == 'nop':
            return None
        raise Unsupported('step ' + ins.text)

    def ite_val(self, ty, c, a, b):
        k = ty[0]
        if k in ('int', 'ptr'):
            return T.ite(c, a, b)
        if k == 'vec' or k == 'arr':
            return [self.ite_val(ty[2], c, x, y) for x, y in zip(a, b)]
        if k == 'struct':
            return [self.ite_val(self.ty.resolve(f), c, x, y) for f, x, y in zip(ty[1], a, b)]
        raise Unsupported('select type')

    def binop(self, op, a, b):
        if op == 'add':
            return T.add(a, b)
        if op == 'xor':
            return T.bxor(a, b)
        if op == 'sub':
            return T.sub(a, b)
        if op == 'and':
            return T.band(a, b)
        if op == 'or':
            return T.bor(a, b)
        if op == 'mul':
            return T.mul(a, b)
        if op in ('shl', 'lshr', 'ashr'):
            if not T.is_const(b):
                if T.is_const(a):
                    raise Unsupported('symbolic shift amount')
                raise Unsupported('symbolic shift amount')
            k = T.cval(b)
            if k >= T.width(a):
                return T.const(0, T.width(a))
            return {'shl': T.shl, 'lshr': T.lshr, 'ashr': T.ashr}[op](a, k)
        if op == 'udiv':
            return T.udiv(a, b)
        if op == 'urem':
            return T.urem(a, b)
        if op in ('sdiv', 'srem') and T.is_const(a) and T.is_const(b):
            w = T.width(a)
            x, y = T.cval(a), T.cval(b)
            if x >> (w - 1):
                x -= 1 << w
            if y >> (w - 1):
                y -= 1 << w
            q = abs(x) // abs(y) * (1 if (x < 0) == (y < 0) else -1)
            return T.const(q if op == 'sdiv' else x - q * y, w)
        raise Unsupported('binop ' + op)

    def icmp(self, pred, a, b, ty):
        if ty[0] == 'ptr' or (not T.is_const(a) and not T.is_const(b)):
            # same-object pointer comparisons are decided on offsets (objects do not wrap the address space)
            try:
                oa, offa = self.decode(a) if not T.is_const(a) else (None, T.cval(a))
                ob, offb = self.decode(b) if not T.is_const(b) else (None, T.cval(b))
            except Inconclusive:
                oa = ob = 'x'
                if ty[0] == 'ptr':
                    raise
            if oa != 'x':
                if oa is ob:
                    return T.icmp(pred, T.const(offa, 64), T.const(offb, 64)) if oa is None else \
                        T.icmp(pred, T.const(offa + (1 << 32), 64), T.const(offb + (1 << 32), 64))
                if oa is None or ob is None:
                    # object address vs small constant (null / dangling): objects live far above
                    if pred == 'eq':
                        return T.const(0, 1)
                    if pred == 'ne':
                        return T.const(1, 1)
                    big_left = oa is not None
                    return T.const(int({'ult': not big_left, 'ule': not big_left, 'ugt': big_left, 'uge': big_left}[pred]), 1)
                if pred == 'eq':
                    return T.const(0, 1)
                if pred == 'ne':
                    return T.const(1, 1)
                # ordering of distinct live objects (only run-time overlap checks of vectorised loops and memmove ask):
                # objects never overlap; the relative order is fixed by allocation order. Either outcome of such a
                # check selects between semantically equal code versions, so one layout is explored (stated assumption).
                self.stats['cross_object_order_checks'] = self.stats.get('cross_object_order_checks', 0) + 1
                lt = oa.id < ob.id
                return T.const(int({'ult': lt, 'ule': lt, 'ugt': not lt, 'uge': not lt}[pred]), 1)
        return T.icmp(pred, a, b)

    # ---------------------------------------------------------------- intrinsics
    def intrinsic(self, name, args):
        from . import intrin
        return intrin.call(self, name, args)


def load_module(paths):
    m = Module()
    for p in paths:
        m.load(p)
    return m
