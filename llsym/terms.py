# llsym term layer: canonicalising bit-vector terms.
#
# Value   = tuple of segments, LSB first.
# Segment = (leaves, c, n): n bits = XOR over (nid, lo) in leaves of node[nid][lo:lo+n]  XOR  constant c
#           leaves sorted and distinct; adjacent parallel segments are merged (norm).
# Nodes (hash-consed, referenced by integer id):
#   var   name                      free symbolic variable
#   add   (((term,coef),...), c)    word-level linear form, nested adds flattened, sorted
#   and1  (v1, v2, ...)             1-bit AND of canonical 1-bit values (sorted, flattened)
#   eqz   v                         1 bit: v == 0
#   ult   (a, b)                    1 bit: a <u b
#   ite   (c, a, b)                 c is a 1-bit value
#   mul   (a, b)                    sorted
#   udiv/urem (a, b)
#   uf    (name, arg1, ...)         uninterpreted function application
#
# Everything GF(2)-linear (xor, shifts, rotates, shuffles, bitcasts, masks with constants) is pure
# segment surgery, so that all spellings of the same bit permutation/xor end in the same tuple.
import sys

sys.setrecursionlimit(100000)

nodes = []
_tab = {}
# proven equalities applied at construction time (see congr.discover_aliases): node id -> value, node id -> [(lo, n, value)]
ALIAS_NODE = {}
ALIAS_SLICE = {}


def reset():
    global nodes, _tab, _vals
    nodes = []
    _tab = {}
    _vids.clear()
    _vals = []
    _add_ids.clear()
    _zcache.clear()
    _deps.clear()
    ALIAS_NODE.clear()
    ALIAS_SLICE.clear()
    _ufdecl.clear()


def node(op, width, args):
    k = (op, width, args)
    i = _tab.get(k)
    if i is None:
        i = len(nodes)
        nodes.append(k)
        _tab[k] = i
    return i


def width(v):
    w = 0
    for s in v:
        w += s[2]
    return w


def const(val, n):
    return (((), val & ((1 << n) - 1), n),) if n else ()


def var(name, n):
    return ((((node('var', n, name), 0),), 0, n),)


def is_const(v):
    for s in v:
        if s[0]:
            return False
    return True


def cval(v):
    r = 0
    p = 0
    for l, c, n in v:
        r |= c << p
        p += n
    return r


def full(nid):
    return ((((nid, 0),), 0, nodes[nid][1]),)


def single_node(v):
    """If v is exactly one whole node (no xor, no const), return its id else None."""
    if len(v) == 1:
        l, c, n = v[0]
        if len(l) == 1 and c == 0 and l[0][1] == 0 and nodes[l[0][0]][1] == n:
            return l[0][0]
    return None


def norm(segs):
    out = []
    for s in segs:
        if s[2] == 0:
            continue
        if out:
            pl, pc, pn = out[-1]
            l, c, n = s
            if len(pl) == len(l):
                ok = True
                for a, b in zip(pl, l):
                    if a[0] != b[0] or a[1] + pn != b[1]:
                        ok = False
                        break
                if ok:
                    out[-1] = (pl, pc | (c << pn), pn + n)
                    continue
        out.append(s)
    return tuple(out)


def extract(v, lo, n):
    if n == 0:
        return ()
    out = []
    pos = 0
    hi = lo + n
    for l, c, sn in v:
        a = lo if lo > pos else pos
        e = pos + sn
        b = hi if hi < e else e
        if a < b:
            d = a - pos
            m = b - a
            if d == 0 and m == sn:
                out.append((l, c, sn))
            else:
                out.append((tuple([(x, y + d) for x, y in l]), (c >> d) & ((1 << m) - 1), m))
        pos = e
        if pos >= hi:
            break
    if pos < hi:
        raise AssertionError('extract out of range')
    if ALIAS_SLICE or ALIAS_NODE:
        return _apply_aliases(norm(out))
    return norm(out)


def _apply_aliases(v):
    out = []
    changed = False
    for seg in v:
        l, c, n = seg
        hit = False
        for nid, lo in l:
            if nid in ALIAS_SLICE or nid in ALIAS_NODE:
                hit = True
                break
        if not hit:
            out.append(seg)
            continue
        parts = []
        keep = []
        for nid, lo in l:
            rep = None
            a = ALIAS_NODE.get(nid)
            if a is not None:
                rep = _extract_raw_value(a, lo, n)
            else:
                for a0, m, val in ALIAS_SLICE.get(nid, ()):
                    if a0 <= lo and lo + n <= a0 + m:
                        rep = _extract_raw_value(val, lo - a0, n)
                        break
            if rep is None:
                keep.append((nid, lo))
            else:
                parts.append(rep)
        if not parts:
            out.append(seg)
            continue
        changed = True
        parts.append(((tuple(keep), c, n),))
        out.extend(bxor(*parts))
    return norm(out) if changed else v


def _extract_raw_value(v, lo, n):
    # extract without alias post-processing (the alias values are already in normal form)
    res = []
    pos = 0
    hi = lo + n
    for l, c, sn in v:
        a = lo if lo > pos else pos
        e = pos + sn
        b = hi if hi < e else e
        if a < b:
            d = a - pos
            m = b - a
            res.append((tuple([(x, y + d) for x, y in l]), (c >> d) & ((1 << m) - 1), m))
        pos = e
        if pos >= hi:
            break
    return norm(res)


def concat(vs):
    out = []
    for v in vs:
        out.extend(v)
    return norm(out)


def boundaries(vs):
    bs = set()
    for v in vs:
        p = 0
        for s in v:
            p += s[2]
            bs.add(p)
    return sorted(bs)


def _pieces(v, bounds):
    """split v at the given sorted boundaries (which include all of v's own); yields raw segments"""
    out = []
    it = iter(v)
    l, c, sn = next(it)
    pos = 0  # start of current seg
    lo = 0
    for hi in bounds:
        while lo >= pos + sn:
            pos += sn
            l, c, sn = next(it)
        d = lo - pos
        n = hi - lo
        if d == 0 and n == sn:
            out.append((l, c, n))
        else:
            out.append((tuple([(x, y + d) for x, y in l]), (c >> d) & ((1 << n) - 1), n))
        lo = hi
    return out


def bxor(*vs):
    vs = [v for v in vs if v]
    if len(vs) == 1:
        return vs[0]
    bounds = boundaries(vs)
    cols = [_pieces(v, bounds) for v in vs]
    out = []
    for i in range(len(bounds)):
        cnt = {}
        c = 0
        n = cols[0][i][2]
        for col in cols:
            l, cc, _ = col[i]
            c ^= cc
            for x in l:
                if x in cnt:
                    del cnt[x]
                else:
                    cnt[x] = 1
        out.append((tuple(sorted(cnt)), c, n))
    return norm(out)


def opaque(v):
    """wrap a value into one sharing node (hash-consed by content): keeps XOR sums from growing without bound along deep
    pipelines; two computations that build the same value get the same node, so syntactic comparison still works"""
    if is_const(v):
        return v
    nid = single_node(v)
    if nid is not None:
        return v
    return full(node('def', width(v), v))


def maxleaves(v):
    m = 0
    for l, c, n in v:
        if len(l) > m:
            m = len(l)
    return m


def bnot(a):
    return bxor(a, const(-1, width(a)))


def bit(v, i):
    return extract(v, i, 1)


ANF = [False]     # algebraic normal form mode: AND distributes over XOR, products are monomial nodes over atomic bits


def _monomials(x):
    """1-bit value -> set of monomials (frozensets of atom leaves); the empty monomial is the constant 1"""
    l, c, n = x[0]
    ms = set()
    if c:
        ms.add(frozenset())
    for nid, lo in l:
        op, w, args = nodes[nid]
        if op == 'and1':
            m = frozenset(a[0][0][0] for a in args)
        else:
            m = frozenset([(nid, lo)])
        if m in ms:
            ms.discard(m)
        else:
            ms.add(m)
    return ms


def _from_monomials(ms):
    leaves = []
    c = 0
    for m in ms:
        if not m:
            c ^= 1
        elif len(m) == 1:
            leaves.append(next(iter(m)))
        else:
            args = tuple(sorted((((a,), 0, 1),) for a in m))
            leaves.append((node('and1', 1, args), 0))
    return ((tuple(sorted(leaves)), c, 1),)


def and1_anf(a, b):
    if is_const(a):
        return b if cval(a) else const(0, 1)
    if is_const(b):
        return a if cval(b) else const(0, 1)
    res = set()
    for x in _monomials(a):
        for y in _monomials(b):
            m = x | y
            if m in res:
                res.discard(m)
            else:
                res.add(m)
    return _from_monomials(res)


def and1(a, b):
    if ANF[0]:
        return and1_anf(a, b)
    args = set()
    for x in (a, b):
        if is_const(x):
            if cval(x) == 0:
                return const(0, 1)
            continue
        l, c, n = x[0]
        if len(l) == 1 and c == 0 and nodes[l[0][0]][0] == 'and1':
            args.update(nodes[l[0][0]][2])
        else:
            args.add(x)
    for x in args:
        if bxor(x, const(1, 1)) in args:
            return const(0, 1)
    if not args:
        return const(1, 1)
    args = tuple(sorted(args))
    if len(args) == 1:
        return args[0]
    return full(node('and1', 1, args))


def _mask(op, m, b, w):
    out = []
    i = 0
    while i < w:
        bb = (m >> i) & 1
        j = i
        while j < w and ((m >> j) & 1) == bb:
            j += 1
        if op == 'and':
            out.extend(extract(b, i, j - i) if bb else const(0, j - i))
        else:
            out.extend(const(-1, j - i) if bb else extract(b, i, j - i))
        i = j
    return norm(out)


def band(a, b):
    w = width(a)
    if is_const(b):
        a, b = b, a
    if is_const(a):
        return _mask('and', cval(a), b, w)
    if a == b:
        return a
    out = []
    bounds = boundaries([a, b])
    pa = _pieces(a, bounds)
    pb = _pieces(b, bounds)
    for x, y in zip(pa, pb):
        n = x[2]
        if not x[0]:
            out.extend(_mask('and', x[1], (y,), n))
        elif not y[0]:
            out.extend(_mask('and', y[1], (x,), n))
        elif x == y:
            out.append(x)
        else:
            vx, vy = (x,), (y,)
            for i in range(n):
                out.extend(and1(extract(vx, i, 1), extract(vy, i, 1)))
    return norm(out)


def bor(a, b):
    w = width(a)
    if is_const(b):
        a, b = b, a
    if is_const(a):
        return _mask('or', cval(a), b, w)
    if a == b:
        return a
    out = []
    bounds = boundaries([a, b])
    pa = _pieces(a, bounds)
    pb = _pieces(b, bounds)
    for x, y in zip(pa, pb):
        n = x[2]
        if not x[0]:
            out.extend(_mask('or', x[1], (y,), n))
        elif not y[0]:
            out.extend(_mask('or', y[1], (x,), n))
        elif x == y:
            out.append(x)
        else:
            vx, vy = (x,), (y,)
            out.extend(bxor(vx, vy, concat([and1(extract(vx, i, 1), extract(vy, i, 1)) for i in range(n)])))
    return norm(out)


_vids = {}
_vals = []


def vid(v):
    """intern a value: one hash of the (possibly large, fragmented) tuple instead of one per dictionary operation"""
    i = _vids.get(v)
    if i is None:
        i = len(_vals)
        _vids[v] = i
        _vals.append(v)
    return i


_add_ids = {}    # add node id -> ((vid, coef), ...): flattening nested sums re-uses interned ids instead of re-hashing


def lin(w, terms, c):
    M = (1 << w) - 1
    acc = {}
    c &= M
    for t, k in terms:
        k &= M
        if k == 0:
            continue
        if is_const(t):
            c = (c + k * cval(t)) & M
            continue
        nid = single_node(t)
        if nid is not None:
            o, ww, args = nodes[nid]
            if o == 'add' and ww == w:
                for i, kk in _add_ids[nid]:
                    acc[i] = (acc.get(i, 0) + k * kk) & M
                c = (c + k * args[1]) & M
                continue
        i = vid(t)
        acc[i] = (acc.get(i, 0) + k) & M
    ids = sorted([(i, k) for i, k in acc.items() if k])
    if not ids:
        return const(c, w)
    if len(ids) == 1 and ids[0][1] == 1:
        t = _vals[ids[0][0]]
        if c == 0:
            return t
        # carry-free case: the summand's low bits are constant and absorb the constant without a carry
        m = 0
        lowc = 0
        for l, cc, n in t:
            if l:
                break
            lowc |= cc << m
            m += n
        if 0 < m < w and c < (1 << m) and lowc + c < (1 << m):
            return concat([const(lowc + c, m), extract(t, m, w - m)])
    key = ('add', w, (tuple(ids), c))
    nid = _tab.get(key)
    if nid is None:
        nid = len(nodes)
        nodes.append(('add', w, (tuple([(_vals[i], k) for i, k in ids]), c)))
        _tab[key] = nid
        _add_ids[nid] = tuple(ids)
    if ALIAS_NODE:
        a = ALIAS_NODE.get(nid)
        if a is not None:
            return a
    return full(nid)


def add(a, b):
    return lin(width(a), [(a, 1), (b, 1)], 0)


def sub(a, b):
    return lin(width(a), [(a, 1), (b, -1)], 0)


def neg(a):
    return lin(width(a), [(a, -1)], 0)


def shl(a, k):
    w = width(a)
    return concat([const(0, k), extract(a, 0, w - k)]) if k < w else const(0, w)


def lshr(a, k):
    w = width(a)
    return concat([extract(a, k, w - k), const(0, k)]) if k < w else const(0, w)


def ashr(a, k):
    w = width(a)
    if k >= w:
        k = w - 1
    s = extract(a, w - 1, 1)
    return concat([extract(a, k, w - k)] + [s] * k)


def rotl(a, k):
    w = width(a)
    k %= w
    return concat([extract(a, w - k, k), extract(a, 0, w - k)]) if k else a


def rotr(a, k):
    return rotl(a, width(a) - (k % width(a)))


def zext(a, w):
    return concat([a, const(0, w - width(a))])


def sext(a, w):
    wa = width(a)
    s = extract(a, wa - 1, 1)
    return concat([a] + [s] * (w - wa))


def trunc(a, w):
    return extract(a, 0, w)


def bswap(a):
    w = width(a)
    return concat([extract(a, w - 8 - 8 * i, 8) for i in range(w // 8)])


def mul(a, b):
    w = width(a)
    if is_const(b):
        a, b = b, a
    if is_const(a):
        return lin(w, [(b, cval(a))], 0)
    x, y = sorted((a, b))
    return full(node('mul', w, (x, y)))


def _minmax(v):
    """(min, max) assuming every non-constant bit can be anything"""
    lo = hi = 0
    p = 0
    for l, c, n in v:
        if l:
            hi |= ((1 << n) - 1) << p
        else:
            lo |= c << p
            hi |= c << p
        p += n
    return lo, hi


def eqz(v):
    """1-bit: v == 0"""
    if is_const(v):
        return const(int(cval(v) == 0), 1)
    for l, c, n in v:
        if not l and c:
            return const(0, 1)
    # drop constant-zero segments: (v == 0) iff all non-const segments are zero
    segs = norm(tuple(s for s in v if s[0]))
    if width(segs) == 1:
        return bxor(segs, const(1, 1))
    nid_ = node('eqz', 1, segs)
    if ALIAS_NODE and nid_ in ALIAS_NODE:
        return ALIAS_NODE[nid_]
    return full(nid_)


def eq(a, b):
    if a == b:
        return const(1, 1)
    w = width(a)
    d = bxor(a, b)
    if is_const(d):
        return const(int(cval(d) == 0), 1)
    for l, c, n in d:
        if not l and c:
            return const(0, 1)
    s = sub(a, b)
    if is_const(s):
        return const(int(cval(s) == 0), 1)
    # prefer the subtraction form when it is strictly simpler (single remaining term)
    return eqz(d)


def ne(a, b):
    return bxor(eq(a, b), const(1, 1))


def ult(a, b):
    if a == b:
        return const(0, 1)
    amin, amax = _minmax(a)
    bmin, bmax = _minmax(b)
    if amax < bmin:
        return const(1, 1)
    if amin >= bmax:
        return const(0, 1)
    w = width(a)
    if is_const(b):
        c = cval(b)
        if c & (c - 1) == 0:
            # a < 2^k  <=>  the bits of a from k upwards are all zero (k = w-1: the sign-bit test of signed comparisons)
            k = c.bit_length() - 1
            return eqz(extract(a, k, w - k))
    if is_const(a):
        c = cval(a) + 1
        if c & (c - 1) == 0 and c < (1 << w):
            # 2^k - 1 < b  <=>  some bit of b from k upwards is set
            k = c.bit_length() - 1
            return bxor(eqz(extract(b, k, w - k)), const(1, 1))
    nid_ = node('ult', 1, (a, b))
    if ALIAS_NODE and nid_ in ALIAS_NODE:
        return ALIAS_NODE[nid_]
    return full(nid_)


def ule(a, b):
    return bxor(ult(b, a), const(1, 1))


def _flipmsb(a):
    w = width(a)
    return bxor(a, const(1 << (w - 1), w))


def slt(a, b):
    return ult(_flipmsb(a), _flipmsb(b))


def sle(a, b):
    return ule(_flipmsb(a), _flipmsb(b))


def icmp(pred, a, b):
    if pred == 'eq':
        return eq(a, b)
    if pred == 'ne':
        return ne(a, b)
    if pred == 'ult':
        return ult(a, b)
    if pred == 'ugt':
        return ult(b, a)
    if pred == 'ule':
        return ule(a, b)
    if pred == 'uge':
        return ule(b, a)
    if pred == 'slt':
        return slt(a, b)
    if pred == 'sgt':
        return slt(b, a)
    if pred == 'sle':
        return sle(a, b)
    if pred == 'sge':
        return sle(b, a)
    raise Exception('icmp pred ' + pred)


def ite(c, a, b):
    if is_const(c):
        return a if cval(c) else b
    if a == b:
        return a
    w = width(a)
    if w == 1:
        return bxor(b, and1(c, bxor(a, b)))
    d = bxor(a, b) if w <= 32 else None
    if d is not None and is_const(d):
        # the two alternatives differ by a constant mask: result = b xor (c replicated on the mask bits) - pure segment surgery
        m = cval(d)
        parts = []
        i = 0
        while i < w:
            bb = (m >> i) & 1
            j = i
            while j < w and ((m >> j) & 1) == bb:
                j += 1
            parts.append(concat([c] * (j - i)) if bb else const(0, j - i))
            i = j
        return bxor(b, concat(parts))
    # keep equal pieces outside, one ite node per maximal differing run
    bounds = boundaries([a, b])
    pa = _pieces(a, bounds)
    pb = _pieces(b, bounds)
    out = []
    run_a = []
    run_b = []

    def flush():
        if run_a:
            va = norm(run_a)
            vb = norm(run_b)
            n = width(va)
            if n == 1:
                out.extend(bxor(vb, and1(c, bxor(va, vb))))
            else:
                out.extend(full(node('ite', n, (c, va, vb))))
            del run_a[:]
            del run_b[:]
    for x, y in zip(pa, pb):
        if x == y:
            flush()
            out.append(x)
        else:
            run_a.append(x)
            run_b.append(y)
    flush()
    return norm(out)


def udiv(a, b):
    w = width(a)
    if is_const(b):
        d = cval(b)
        if d and d & (d - 1) == 0:
            return lshr(a, d.bit_length() - 1)
        if is_const(a) and d:
            return const(cval(a) // d, w)
    return full(node('udiv', w, (a, b)))


def urem(a, b):
    w = width(a)
    if is_const(b):
        d = cval(b)
        if d and d & (d - 1) == 0:
            k = d.bit_length() - 1
            return concat([extract(a, 0, k), const(0, w - k)])
        if is_const(a) and d:
            return const(cval(a) % d, w)
    return full(node('urem', w, (a, b)))


def uf(name, w, args):
    return full(node('uf', w, (name,) + tuple(args)))


# ---------------------------------------------------------------------------------------------
# Concrete evaluation (translator validation, simulation signatures, replay sanity)

class Evaluator:
    def __init__(self, assign, ufs=None):
        self.assign = assign  # var name -> int
        self.ufs = ufs or {}
        self.memo = {}

    def node(self, i):
        r = self.memo.get(i)
        if r is not None:
            return r
        # iterative post-order to avoid deep recursion
        stack = [i]
        memo = self.memo
        while stack:
            j = stack[-1]
            if j in memo:
                stack.pop()
                continue
            deps = [d for d in node_deps(j) if d not in memo]
            if deps:
                stack.extend(deps)
                continue
            memo[j] = self._eval(j)
            stack.pop()
        return memo[i]

    def val(self, v):
        r = 0
        p = 0
        for l, c, n in v:
            x = c
            m = (1 << n) - 1
            for nid, lo in l:
                x ^= (self.node(nid) >> lo) & m
            r |= x << p
            p += n
        return r

    def _v(self, v):
        r = 0
        p = 0
        memo = self.memo
        for l, c, n in v:
            x = c
            m = (1 << n) - 1
            for nid, lo in l:
                x ^= (memo[nid] >> lo) & m
            r |= x << p
            p += n
        return r

    def _eval(self, j):
        op, w, args = nodes[j]
        M = (1 << w) - 1
        if op == 'var':
            return self.assign.get(args, 0) & M
        if op == 'add':
            r = args[1]
            for t, k in args[0]:
                r += k * self._v(t)
            return r & M
        if op == 'and1':
            for a in args:
                if not self._v(a):
                    return 0
            return 1
        if op == 'def':
            return self._v(args)
        if op == 'eqz':
            return int(self._v(args) == 0)
        if op == 'ult':
            return int(self._v(args[0]) < self._v(args[1]))
        if op == 'ite':
            return self._v(args[1]) if self._v(args[0]) else self._v(args[2])
        if op == 'mul':
            return (self._v(args[0]) * self._v(args[1])) & M
        if op == 'udiv':
            d = self._v(args[1])
            return (self._v(args[0]) // d) if d else M
        if op == 'urem':
            d = self._v(args[1])
            return (self._v(args[0]) % d) if d else self._v(args[0])
        if op == 'uf':
            f = self.ufs.get(args[0])
            vals = tuple(self._v(a) for a in args[1:])
            if f is None:
                import hashlib
                # default interpretation: a pseudo-random function of the FULL result width (a 256-bit digest would leave the upper
                # bits of a 512 / 1024-bit chaining value zero, and digests taken from the tail of the state could never differ)
                h = hashlib.shake_256(repr((args[0], vals)).encode()).digest((w + 7) // 8 + 1)
                return int.from_bytes(h, 'little') & M
            return f(*vals) & M
        raise Exception('eval ' + op)


def value_deps(v):
    for l, c, n in v:
        for nid, lo in l:
            yield nid


_deps = {}


def node_deps(j):
    r = _deps.get(j)
    if r is None:
        r = tuple(set(_node_deps(j)))
        _deps[j] = r
    return r


def _node_deps(j):
    op, w, args = nodes[j]
    if op == 'var':
        return ()
    if op == 'add':
        vs = [t for t, k in args[0]]
    elif op == 'and1':
        vs = args
    elif op == 'eqz' or op == 'def':
        vs = (args,)
    elif op == 'uf':
        vs = args[1:]
    else:
        vs = args
    out = []
    for v in vs:
        for l, c, n in v:
            for nid, lo in l:
                out.append(nid)
    return out


def support(vals):
    """set of var names the given values depend on"""
    seen = set()
    names = set()
    stack = []
    for v in vals:
        stack.extend(value_deps(v))
    while stack:
        j = stack.pop()
        if j in seen:
            continue
        seen.add(j)
        if nodes[j][0] == 'var':
            names.add(nodes[j][2])
        else:
            stack.extend(node_deps(j))
    return names, len(seen)


# ---------------------------------------------------------------------------------------------
# z3 export

_zcache = {}
_ufdecl = {}


def z3node(i):
    import z3
    r = _zcache.get(i)
    if r is not None:
        return r
    stack = [i]
    while stack:
        j = stack[-1]
        if j in _zcache:
            stack.pop()
            continue
        deps = [d for d in node_deps(j) if d not in _zcache]
        if deps:
            stack.extend(deps)
            continue
        _zcache[j] = _z3build(j)
        stack.pop()
    return _zcache[i]


def _z3build(i):
    import z3
    op, w, args = nodes[i]
    if op == 'var':
        return z3.BitVec(args, w)
    if op == 'and1':
        r = z3val(args[0])
        for a in args[1:]:
            r = r & z3val(a)
        return r
    if op == 'add':
        r = None
        for t, k in args[0]:
            x = z3val(t)
            if k != 1:
                if k == (1 << w) - 1:
                    x = -x
                else:
                    x = x * z3.BitVecVal(k, w)
            r = x if r is None else r + x
        if args[1]:
            r = r + z3.BitVecVal(args[1], w)
        return r
    if op == 'def':
        return z3val(args)
    if op == 'eqz':
        x = z3val(args)
        return z3.If(x == 0, z3.BitVecVal(1, 1), z3.BitVecVal(0, 1))
    if op == 'ult':
        return z3.If(z3.ULT(z3val(args[0]), z3val(args[1])), z3.BitVecVal(1, 1), z3.BitVecVal(0, 1))
    if op == 'ite':
        return z3.If(z3val(args[0]) == 1, z3val(args[1]), z3val(args[2]))
    if op == 'mul':
        return z3val(args[0]) * z3val(args[1])
    if op == 'udiv':
        return z3.UDiv(z3val(args[0]), z3val(args[1]))
    if op == 'urem':
        return z3.URem(z3val(args[0]), z3val(args[1]))
    if op == 'uf':
        name = args[0]
        sig = (name, tuple(width(a) for a in args[1:]), w)
        f = _ufdecl.get(sig)
        if f is None:
            f = z3.Function('%s_%d' % (name, len(_ufdecl)), *([z3.BitVecSort(x) for x in sig[1]] + [z3.BitVecSort(w)]))
            _ufdecl[sig] = f
        return f(*[z3val(a) for a in args[1:]])
    raise Exception('z3node ' + op)


def z3val(v):
    import z3
    parts = []
    for l, c, n in v:
        e = z3.BitVecVal(c, n) if (c or not l) else None
        for nid, lo in l:
            x = z3node(nid)
            if not (lo == 0 and n == nodes[nid][1]):
                x = z3.Extract(lo + n - 1, lo, x)
            e = x if e is None else e ^ x
        parts.append(e)
    parts.reverse()
    return parts[0] if len(parts) == 1 else z3.Concat(*parts)


def show(v, depth=2):
    """short human-readable rendering"""
    out = []
    for l, c, n in v:
        ps = []
        for nid, lo in l:
            op, w, args = nodes[nid]
            nm = args if op == 'var' else '%s#%d' % (op, nid)
            ps.append(nm if (lo == 0 and n == w) else '%s[%d+:%d]' % (nm, lo, n))
        if c or not l:
            ps.append(hex(c))
        out.append('^'.join(ps) + ':%d' % n)
    return ' | '.join(out)
