#!/usr/bin/env python3-vt
# C05 - Skein-256/512/1024 digests conform to Skein 1.3 for every message and output length.
# Full digests through the Digest API with the real Threefish inside (ARX, canonical), symbolic message; plus one step from an
# arbitrary (chaining value, tweak) state (hook verif_set_state) for induction over the length.
from common import *
from specs import threefish as spec

NW = {256: 4, 512: 8, 1024: 16}
OUTS = {256: [32, 64, 7, 33, 100, 8], 512: [32, 64, 1, 65, 129, 16], 1024: [32, 64, 128, 31, 200, 257]}
# output sizes needing more than 256 output blocks (block index no longer fits one byte): N -> size of the harness out buffer
LONG = {256: (8225, 8256), 512: (16449, 16512), 1024: (32897, 33024)}


def lens_for(bits, tier):
    bs = bits // 8
    if tier == 'quick':
        return [0, 1, bs - 1, bs, bs + 1, 2 * bs]
    return list(range(0, 2 * bs + 2))


def digest_case(run, task):
    config, bits, N, L = task
    nw = NW[bits]
    mod = module(config, run)
    fname = 'h_skein%d_%d' % (bits, N)
    msg = T.var('msg', 8 * L)
    osz = LONG[bits][1] if N == LONG[bits][0] else 512
    out0 = T.var('out0', 8 * osz)
    args = [Buf('msg', L, init=msg, writable=False), Sc('len', 64, L), Buf('out', osz, init=out0)]
    t0 = time.time()
    res, ex = entry.run(mod, fname, args)
    run.exec_s += time.time() - t0
    run.note_functions(execu.demangle_hint(f) for f in ex.funcs_run)
    exp = spec.skein(msg, L, N, nw)
    full = T.concat([exp, T.extract(out0, 8 * N, 8 * (osz - N))])
    for r in res:
        name = 'skein%d-%d/digest/%s/L=%d' % (bits, 8 * N, config, L)
        if r.status != 'ret':
            st, model = check.pc_feasible(r.pc)
            ob = check.Obligation(name + '/returns')
            ob.n_pairs = 1
            ob.status = 'ok' if st == 'unsat' else st
            ob.detail = r.status + ' ' + r.detail
            run.add(ob)
            if st == 'sat':
                confirm(run, config, fname, args, model, 'skein%d:%s' % (bits, r.status.split(':')[0]), 'Skein%d<%d> %s (%s) [L=%d]' % (bits, N, r.status, r.detail[:80], L), kind='fault')
            continue
        got = r.mem(r.named['out'])
        pairs = [(T.extract(got, 64 * i, 64), T.extract(full, 64 * i, 64)) for i in range(osz // 8)]
        ob = run.equal(name, pairs, r.pc, timeout_s=120)
        if ob.status == 'sat':
            confirm(run, config, fname, args, ob.model, 'skein%d:digest' % bits, 'Skein-%d-%d digest differs from the Skein 1.3 reference [L=%d %s]' % (bits, 8 * N, L, config), exp={'out': full})


def step_case(run, task):
    """from an arbitrary chaining value x and byte counter t0 (t1 = message type, FIRST clear or set), with p bytes buffered:
    update(n bytes) + finalize equals the reference UBI continuation"""
    config, bits, p, n, first = task
    nw = NW[bits]
    bs = bits // 8
    N = {256: 32, 512: 64, 1024: 128}[bits]
    mod = module(config, run)
    fname = 'h_skein%d_%d_step' % (bits, N)
    x = T.var('x', bits)
    t0v = T.var('t0', 64)
    t1c = spec.TYPE_MSG | (spec.T1_FIRST if first else 0)
    pre, msg = T.var('pre', 8 * p), T.var('msg', 8 * n)
    out0 = T.var('out0', 4096)
    args = [Buf('x', bs, init=x, writable=False), Sc('t0', 64, t0v), Sc('t1', 64, t1c), Buf('prefill', p, init=pre, writable=False), Sc('p', 64, p),
            Buf('msg', n, init=msg, writable=False), Sc('len', 64, n), Buf('out', 512, init=out0)]
    t0 = time.time()
    # format limit as implemented: the byte counter is a u64; messages of 2^64 bytes and more are outside the claim
    res, ex = entry.run(mod, fname, args, pre=lambda e: e.assume(T.ult(t0v, T.const((1 << 64) - (1 << 16), 64)), True))
    run.exec_s += time.time() - t0
    run.note_functions(execu.demangle_hint(f) for f in ex.funcs_run)
    # reference continuation: remaining message = buffered bytes || new bytes, position counter continues from t0
    allm = T.concat([pre, msg])
    Lr = p + n
    g = x
    nblocks = max(1, (Lr + bs - 1) // bs)
    pos = 0
    for i in range(nblocks):
        k = min(bs, Lr - pos)
        blk = T.concat([T.extract(allm, 8 * pos, 8 * k), T.const(0, 8 * (bs - k))]) if k > 0 else T.const(0, 8 * bs)
        pos += k
        flags = spec.TYPE_MSG | (spec.T1_FIRST if (first and i == 0) else 0) | (spec.T1_FINAL if i == nblocks - 1 else 0)
        g = spec.ubi_block(g, blk, T.add(t0v, T.const(pos, 64)), T.const(flags, 64), nw)
    ctr = T.concat([T.const(0, 64), T.const(0, 64 * (nw - 1))])
    exp = T.extract(spec.ubi_block(g, ctr, T.const(8, 64), T.const(spec.T1_FIRST | spec.T1_FINAL | spec.TYPE_OUT, 64), nw), 0, 8 * N)
    full = T.concat([exp, T.extract(out0, 8 * N, 4096 - 8 * N)])
    for r in res:
        name = 'skein%d/step/%s/p=%d/n=%d/first=%d' % (bits, config, p, n, first)
        if r.status != 'ret':
            st, model = check.pc_feasible(r.pc)
            ob = check.Obligation(name + '/returns')
            ob.n_pairs = 1
            ob.status = 'ok' if st == 'unsat' else st
            ob.detail = r.status + ' ' + r.detail
            run.add(ob)
            if st == 'sat':
                if 'overflow' in r.detail:
                    key, what = 'skein%d:byte-counter-overflow-panic' % bits, 'Skein%d panics in overflow-checked builds when the byte counter passes 2^64 (t0=%#x)' % (bits, model.get('t0', 0))
                else:
                    key, what = 'skein%d:step:%s' % (bits, r.status.split(':')[0]), 'Skein%d update/finalize %s (%s)' % (bits, r.status, r.detail[:80])
                confirm(run, config, fname, args, model, key, what, kind='fault')
            continue
        if config.startswith('devchk'):
            continue    # overflow-checked profile: only panic reachability is decided here
        got = r.mem(r.named['out'])
        pairs = [(T.extract(got, 64 * i, 64), T.extract(full, 64 * i, 64)) for i in range(64)]
        ob = run.equal(name, pairs, r.pc, timeout_s=120)
        if ob.status == 'sat':
            confirm(run, config, fname, args, ob.model, 'skein%d:step' % bits, 'Skein%d from an arbitrary state differs from the UBI reference [p=%d n=%d t0=%#x]' % (bits, p, n, ob.model.get('t0', 0)), exp={'out': full})


def body(run, a):
    assert spec.selftest()
    tasks = []
    for bits in NW:
        outs = OUTS[bits][:4] if run.tier == 'quick' else OUTS[bits]
        for N in outs:
            for L in (lens_for(bits, run.tier) if N in OUTS[bits][:2] or run.tier == 'thorough' else [0, 1, bits // 8 + 1]):
                tasks.append(('release-std', bits, N, L))
        for L in (0, 1, bits // 8 + 1):
            tasks.append(('devchk-std', bits, OUTS[bits][0], L))
            tasks.append(('release-nounroll', bits, OUTS[bits][1], L))
    for bits in ((256,) if run.tier == 'quick' else NW):
        tasks.append(('release-std', bits, LONG[bits][0], 1))
    stasks = []
    for bits in NW:
        bs = bits // 8
        ps = range(bs + 1) if run.tier == 'thorough' else [0, 1, bs - 1, bs]
        for p in ps:
            for n in ((0, 1, bs, bs + 1) if run.tier == 'thorough' else (0, 1)):
                for first in (0, 1):
                    stasks.append(('release-std', bits, p, n, first))
        for p in (0, bs):
            stasks.append(('devchk-std', bits, p, 1, 0))
    for c in ['release-std', 'devchk-std', 'release-nounroll']:
        module(c, run)
    check.parallel(run, digest_case, tasks)
    check.parallel(run, step_case, stasks)
    # canary: a reference that forgets the FINAL flag on the last message block must be distinguished
    mod = module('release-std', run)
    L = 5
    msg = T.var('msg', 8 * L)
    args = [Buf('msg', L, init=msg, writable=False), Sc('len', 64, L), Buf('out', 512, init=T.var('out0', 4096))]
    res, ex = entry.run(mod, 'h_skein512_64', args)
    r_ = [x for x in res if x.status == 'ret'][0]
    got = r_.mem(r_.named['out'], 0, 64)
    old = spec.T1_FINAL
    spec.T1_FINAL = 0
    bad = spec.skein(msg, L, 64, 8)
    spec.T1_FINAL = old
    run.canary('reference without the FINAL flag is distinguished', check.concrete_differs([(got, bad)], [], [('msg', 8 * L)], run.rng) is not None)
    run.bounds = {'message': 'symbolic bytes', 'output sizes N (bytes)': {b: (OUTS[b][:4] if run.tier == 'quick' else OUTS[b]) for b in NW},
                  'lengths': {b: lens_for(b, run.tier) for b in NW}, 'step from arbitrary state': '%d cases: chaining value and byte counter symbolic, buffer fill / appended length enumerated' % len(stasks),
                  'long outputs (more than 256 output blocks)': {b: LONG[b][0] for b in ((256,) if run.tier == 'quick' else NW)},
                  'outside': 'other output sizes N (the code is uniform in N; stated, not proved); byte counters beyond 2^64'}
    run.assumptions += ['reference typed from the Skein 1.3 specification (UBI, configuration block, output transform), validated against NIST-submission vectors',
                        'LLVM back end and CPU trusted; panic=abort']


if __name__ == '__main__':
    main_wrap(body, 'C05')
