#!/usr/bin/env python3-vt
# C06 - JH-224/256/384/512 digests conform to the JH specification for every message.
# Decomposition (a monolithic bit-sliced-vs-nibble query is out of reach of any solver - measured):
#  (1) 42 per-round lemmas: the crate's bit-sliced round r (hook verif_rounds(r, r+1), every dispatcher arm, from 1024 fresh
#      symbolic state bits) equals the nibble-oriented round R_8 with the GENERATED constant C_r under the mechanically tracked
#      layout pos_r -> pos_{r+1}; both sides are brought to algebraic normal form (canonical for Boolean functions), so each
#      lemma is decided by identity of normal forms and cross-checked by z3;
#  (2) F8 = xor-in ; rounds 0..42 ; xor-out: the real f8 (public Compressor API, every arm) equals the same pipeline assembled
#      from the hook, and pos_42 = pos_0, so (1)+(2) give F8 = specification for every state and block;
#  (3) framing: IV, padding (one block if aligned, two otherwise, 128-bit length), truncation - full digests with f8 summarised
#      as an uninterpreted function against the reference framing over the same function, incl. a step from an arbitrary
#      chaining value and byte counter (hook).
import re
from common import *
from specs import jh as spec


def round_lemma(run, task):
    config, r = task
    mod = module(config, run)
    T.ANF[0] = True
    try:
        Y = T.var('y', 1024)
        args = [Buf('state', 128, init=Y), Sc('from', 64, r), Sc('to', 64, r + 1)]
        t0 = time.time()
        res, ex = entry.run(mod, 'h_jh_rounds', args)
        run.exec_s += time.time() - t0
        run.note_functions(execu.demangle_hint(f) for f in ex.funcs_run)
        words = [T.extract(Y, 128 * i, 128) for i in range(8)]
        exp = T.concat(spec.round_sym(words, r))
        for rr in res:
            name = 'jh/round-lemma/r=%d/%s/arm[%s]' % (r, config, arm_name(rr.pc))
            if rr.status != 'ret':
                st, model = check.pc_feasible(rr.pc)
                ob = check.Obligation(name + '/returns')
                ob.n_pairs = 1
                ob.status = 'ok' if st == 'unsat' else st
                run.add(ob)
                if st == 'sat':
                    confirm(run, config, 'h_jh_rounds', args, model, 'jh:round:%s' % rr.status.split(':')[0], 'JH round %d %s' % (r, rr.status), kind='fault')
                continue
            got = rr.mem(rr.named['state'])
            pairs = [(T.extract(got, 128 * i, 128), T.extract(exp, 128 * i, 128)) for i in range(8)]
            ob = run.equal(name, pairs, rr.pc, timeout_s=300)
            if ob.status == 'sat':
                arm = arm_name(rr.pc)
                confirm(run, config, 'h_jh_rounds', args, ob.model, 'jh:round:%s' % ('portable' if 'nosimd' in config else arm),
                        'JH bit-sliced round %d differs from the nibble-oriented round with constant C_%d (%s arm %s)' % (r, r, config, arm), exp={'state': exp})
    finally:
        T.ANF[0] = False


ARMS = {'sse2': 0, 'ssse3': 1 << 9, 'sse41': (1 << 9) | (1 << 10), 'avx': (1 << 9) | (1 << 10) | (1 << 14), 'avx2': (1 << 9) | (1 << 10) | (1 << 14) | (1 << 15)}


def spec_states(hb, mb):
    """concrete reference: the 8 state words (128-bit ints, little-endian bytes) before every round r = 0..42 for chaining value
    hb (128 bytes) and block mb (64 bytes), in the implementation's layout POS[r]"""
    a = bytes(x ^ y for x, y in zip(hb[:64], mb)) + hb[64:]
    q = spec.group(spec.hbits(a))
    out = []
    for r in range(43):
        words = [0] * 8
        for i in range(256):
            e, p = spec.POS[r][i]
            k = 8 * (p >> 3) + 7 - (p & 7)
            for t in range(4):
                if (q[i] >> (3 - t)) & 1:
                    words[e + 2 * t] |= 1 << k
        out.append(words)
        if r < 42:
            q = spec.round_int(q, spec.RC[r], 8)
    return out


def f8_cut_proof(run, task):
    """the REAL f8 (public Compressor API), one dispatcher arm: locate the state after each round among the SSA values of the
    symbolic execution by simulation signature (discovery only), re-execute with those values replaced by fresh variables,
    and prove every slice equal to the nibble-oriented round in algebraic normal form"""
    config, armname = task
    mod = module(config, run)
    cpu = ARMS.get(armname, 'initialised')
    H, M = T.var('h', 1024), T.var('m', 512)
    args = [Buf('state', 128, init=H), Buf('block', 64, init=M, writable=False)]
    base = 'jh/f8/%s/arm[%s]' % (config, armname)
    # ---- pass 1: trace with sharing nodes, concrete signatures
    ex1 = entry.default_exec(mod, cpu=cpu, trace=True)
    ex1.share_threshold = 24
    t0 = time.time()
    res1, ex1 = entry.run(mod, 'h_jh_f8', args, ex=ex1)
    rets = [r for r in res1 if r.status == 'ret']
    if len(res1) != 1 or not rets:
        run.inconclusive.append(base + ': expected exactly one returning path, got %s' % [r.status for r in res1])
        return
    r1 = rets[0]
    rng = run.rng
    asgs = []
    for _ in range(2):
        hb = bytes(rng.getrandbits(8) for _ in range(128))
        mb = bytes(rng.getrandbits(8) for _ in range(64))
        asgs.append((hb, mb))
    evs = [T.Evaluator({'h': int.from_bytes(hb, 'little'), 'm': int.from_bytes(mb, 'little')}) for hb, mb in asgs]
    exps = [spec_states(hb, mb) for hb, mb in asgs]
    # signature table of 128-bit aligned pieces of every traced vector value
    table = {}
    for idx, (fn, dst, occ, ty, val) in enumerate(r1.trace):
        bits = ex1.to_bits(ty, val)
        w = T.width(bits)
        if w % 128:
            continue
        for off in range(0, w, 128):
            piece = T.extract(bits, off, 128)
            sig = tuple(ev.val(piece) for ev in evs)
            table.setdefault(sig, []).append((idx, fn, dst, occ, off))
    cuts = {}
    combos = {}
    last_idx = -1
    missing = []
    for b in range(1, 42):
        for wd in range(8):
            sig = tuple(e[b][wd] for e in exps)
            cands = [c for c in table.get(sig, []) if c[0] > last_idx - 400]
            if not cands:
                # the optimiser may have re-associated the last XOR of the linear layer: the word then only exists as A ^ B
                # for two SSA values A (earlier) and B; cut B relative to A (B := fresh ^ A), so that A ^ B becomes the fresh variable
                best = None
                for sigA, ents in table.items():
                    o = tuple(x ^ y for x, y in zip(sig, sigA))
                    if o in table:
                        ia, ib = ents[0], table[o][0]
                        if ia[0] < ib[0] and ia[0] > last_idx - 400 and (best is None or ib[0] < best[1][0]):
                            best = (ia, ib)
                if best is None:
                    missing.append((b, wd))
                    continue
                ia, ib = best
                cuts.setdefault((ia[1], ia[2], ia[3]), []).append((ia[4], 128, None))
                cuts.setdefault((ib[1], ib[2], ib[3]), []).append((ib[4], 128, 'c%d_%d' % (b, wd), (ia[1], ia[2], ia[3], ia[4])))
                continue
            idx, fn, dst, occ, off = cands[0]
            cuts.setdefault((fn, dst, occ), []).append((off, 128, 'c%d_%d' % (b, wd)))
        # keep the search roughly monotone in the trace
        found = [table[tuple(e[b][wd] for e in exps)][0][0] for wd in range(8) if tuple(e[b][wd] for e in exps) in table]
        if found:
            last_idx = max(found)
    run.extra['jh_cut_points_missing'] = run.extra.get('jh_cut_points_missing', 0) + len(missing)
    missing = set(missing)
    if len(missing) > 120:
        run.inconclusive.append(base + ': %d of 328 round-boundary words not found among the SSA values' % len(missing))
        return
    # ---- pass 2: cut execution in algebraic normal form
    T.ANF[0] = True
    try:
        ex2 = entry.default_exec(mod, cpu=cpu)
        ex2.cuts = cuts
        res2, ex2 = entry.run(mod, 'h_jh_f8', args, ex=ex2)
        r2 = [r for r in res2 if r.status == 'ret'][0]
        terms = ex2.cut_terms
        words_in = [T.extract(H, 128 * i, 128) for i in range(8)]
        mw = [T.extract(M, 128 * i, 128) for i in range(4)]
        cur = [T.bxor(words_in[i], mw[i]) if i < 4 else words_in[i] for i in range(8)]
        ok = True
        for b in range(1, 43):
            expw = spec.round_sym(cur, b - 1)
            if b <= 41:
                # a word the optimiser never materialises (fused into the next round) is not cut: its reference expression is
                # carried into the next slice, where both sides expand it (one more round deep for that word only)
                have = [wd for wd in range(8) if (b, wd) not in missing]
                gotw = [terms.get('c%d_%d' % (b, wd)) for wd in have]
                if any(g is None for g in gotw):
                    run.inconclusive.append(base + ': cut %d not reached in the second pass' % b)
                    return
                # a virtual cut (B := fresh ^ A) can make a later word of the same boundary mention the fresh variable:
                # substitute its recorded defining term back (still one round deep)
                mapping = {}
                for wd in have:
                    nm = 'c%d_%d' % (b, wd)
                    v = T.var(nm, 128)
                    mapping[(T.single_node(v), 0, 128)] = terms[nm]
                own = {'c%d_%d' % (b, wd) for wd in range(8)}
                if any(T.support([g])[0] & own for g in gotw):
                    from llsym import congr
                    gotw = congr.rebuild(gotw, mapping)
                full_exp = expw
                cur = [T.var('c%d_%d' % (b, wd), 128) if (b, wd) not in missing else full_exp[wd] for wd in range(8)]
                expw = [full_exp[wd] for wd in have]
            else:
                out = r2.mem(r2.named['state'])
                gotw = [T.extract(out, 128 * i, 128) for i in range(8)]
                expw = [expw[i] if i < 4 else T.bxor(expw[i], mw[i - 4]) for i in range(8)]
            ob = run.equal(base + '/slice=round %d%s' % (b - 1, ' + xor-out' if b == 42 else (' (after xor-in)' if b == 1 else '')), list(zip(gotw, expw)), r2.pc, timeout_s=300)
            if os.environ.get('VERIF_DEBUG') and ob.status != 'identical':
                for wd_, (g_, e_) in enumerate(zip(gotw, expw)):
                    print('DEBUG slice', b, 'word', wd_, 'identical' if g_ == e_ else 'DIFF', T.support([g_])[0], T.support([e_])[0])
            if ob.status == 'sat':
                ok = False
                # replay: the real f8 on the reconstructed concrete input differs from the concrete reference
                hb = bytes(rng.getrandbits(8) for _ in range(128))
                mb = bytes(rng.getrandbits(8) for _ in range(64))
                model = {'h': int.from_bytes(hb, 'little'), 'm': int.from_bytes(mb, 'little'), 'cpu': cpu if isinstance(cpu, int) else 0}
                expo = spec.F8(hb, mb)
                confirm(run, config, 'h_jh_f8', args, model, 'jh:f8:%s' % armname, 'JH f8 differs from the specification in round %d (arm %s)' % (b - 1, armname),
                        exp={'state': T.const(int.from_bytes(expo, 'little'), 1024)})
                break
    finally:
        T.ANF[0] = False
    run.exec_s += time.time() - t0
    run.note_functions(execu.demangle_hint(f) for f in ex1.funcs_run)


def f8_summary(ex, name, args):
    st, data = args
    o, off = ex.access(st, 128, 16, True)
    state = ex.read_bytes(o, off, 128)
    d, doff = ex.access(data, 64, 1, False)
    blk = ex.read_bytes(d, doff, 64)
    ex.write_bits(o, off, T.uf('jh_f8', 1024, (state, blk)))
    ex.stats['summaries'] = ex.stats.get('summaries', 0) + 1
    return None


F8_RE = re.compile(r'jh_x86_6410compressor2f817h[0-9a-f]{16}E$')


def ref_digest(msg, L, outbits, h0=None, prior_bytes=None):
    """reference framing over the uninterpreted compression function"""
    h = T.const(int.from_bytes(spec.iv(outbits), 'little'), 1024) if h0 is None else h0
    total = T.const(L, 64) if prior_bytes is None else T.add(prior_bytes, T.const(L, 64))
    bitlen = T.shl(T.zext(total, 128), 3)
    # padding: 0x80, zeros, 128-bit big-endian bit length; one block if the message is block-aligned, two otherwise
    zeros = 383 + ((-8 * L) % 512)
    padb = T.concat([T.const(0x80, 8), T.const(0, 8 * ((zeros - 7) // 8)), T.bswap(bitlen)])
    data = T.concat([msg, padb]) if L else padb
    for i in range(T.width(data) // 512):
        h = T.uf('jh_f8', 1024, (h, T.extract(data, 512 * i, 512)))
    return T.extract(h, 1024 - outbits, outbits)


def framing_case(run, task):
    config, outbits, L = task
    mod = module(config, run)
    fname = 'h_jh%d' % outbits
    msg = T.var('msg', 8 * L)
    out0 = T.var('out0', 4096)
    args = [Buf('msg', L, init=msg, writable=False), Sc('len', 64, L), Buf('out', 512, init=out0)]
    ex = entry.default_exec(mod)
    ex.summary_res.append((F8_RE, f8_summary))
    res, ex = entry.run(mod, fname, args, ex=ex)
    run.note_functions(execu.demangle_hint(f) for f in ex.funcs_run)
    run.extra['summarised_calls'] = run.extra.get('summarised_calls', 0) + ex.stats.get('summaries', 0)
    dn = outbits // 8
    exp = T.concat([ref_digest(msg, L, outbits), T.extract(out0, 8 * dn, 4096 - 8 * dn)])
    for r in res:
        name = 'jh%d/framing/%s/L=%d' % (outbits, config, L)
        if r.status != 'ret':
            st, model = check.pc_feasible(r.pc)
            ob = check.Obligation(name + '/returns')
            ob.n_pairs = 1
            ob.status = 'ok' if st == 'unsat' else st
            run.add(ob)
            if st == 'sat':
                confirm(run, config, fname, args, model, 'jh%d:%s' % (outbits, r.status.split(':')[0]), 'Jh%d %s (%s) [L=%d]' % (outbits, r.status, r.detail[:80], L), kind='fault')
            continue
        got = r.mem(r.named['out'])
        ob = run.equal(name, [(got, exp)], r.pc, timeout_s=60)
        if ob.status == 'sat':
            run.violation('jh%d:framing' % outbits, 'Jh%d: IV / padding / truncation differ from the specification for a message of %d bytes (compression function uninterpreted)' % (outbits, L),
                          run.write_replay('jh-framing-%d-%d' % (outbits, L), {'entry': fname, 'L': L, 'note': 'framing over an uninterpreted compression function; replay through the native KAT comparison',
                                                                              'args': entry.arg_hex(args, ob.model)}))


def step_case(run, task):
    config, outbits, p, n = task
    mod = module(config, run)
    fname = 'h_jh%d_step' % outbits
    H = T.var('h', 1024)
    dl = T.var('datalen', 64)
    pre, msg = T.var('pre', 8 * p), T.var('msg', 8 * n)
    out0 = T.var('out0', 4096)
    args = [Buf('state', 128, init=H, writable=False), Sc('datalen', 64, dl), Buf('prefill', p, init=pre, writable=False), Sc('p', 64, p),
            Buf('msg', n, init=msg, writable=False), Sc('len', 64, n), Buf('out', 512, init=out0)]
    ex = entry.default_exec(mod)
    ex.summary_res.append((F8_RE, f8_summary))
    # implementation limit (stated in the property): datalen < 2^61 bytes so that the bit length fits 64 bits;
    # the state is consistent: datalen counts the p buffered bytes, the rest is a whole number of blocks
    lim = T.ult(dl, T.const((1 << 61) - 4096, 64))
    cons = T.eq(T.extract(T.sub(dl, T.const(p, 64)), 0, 6), T.const(0, 6))
    res, ex = entry.run(mod, fname, args, ex=ex, pre=lambda e: (e.assume(lim, True), e.assume(cons, True)))
    run.note_functions(execu.demangle_hint(f) for f in ex.funcs_run)
    dn = outbits // 8
    # reference: the buffered bytes and the new bytes are the tail of a message of datalen + n bytes
    allm = T.concat([pre, msg])
    Lr = p + n
    total = T.add(dl, T.const(n, 64))
    bitlen = T.shl(T.zext(total, 128), 3)
    zeros = 383 + ((-8 * Lr) % 512)
    padb = T.concat([T.const(0x80, 8), T.const(0, 8 * ((zeros - 7) // 8)), T.bswap(bitlen)])
    data = T.concat([allm, padb]) if Lr else padb
    h = H
    for i in range(T.width(data) // 512):
        h = T.uf('jh_f8', 1024, (h, T.extract(data, 512 * i, 512)))
    exp = T.concat([T.extract(h, 1024 - outbits, outbits), T.extract(out0, 8 * dn, 4096 - 8 * dn)])
    for r in res:
        name = 'jh%d/step/%s/p=%d/n=%d' % (outbits, config, p, n)
        if r.status != 'ret':
            st, model = check.pc_feasible(r.pc)
            ob = check.Obligation(name + '/returns')
            ob.n_pairs = 1
            ob.status = 'ok' if st == 'unsat' else st
            ob.detail = r.status + ' ' + r.detail
            run.add(ob)
            if st == 'sat':
                key = 'jh%d:length-overflow-panic' % outbits if 'overflow' in r.detail else 'jh%d:step:%s' % (outbits, r.status.split(':')[0])
                confirm(run, config, fname, args, model, key, 'Jh%d update/finalize %s (%s) [datalen=%#x]' % (outbits, r.status, r.detail[:80], model.get('datalen', 0)), kind='fault')
            continue
        got = r.mem(r.named['out'])
        ob = run.equal(name, [(got, exp)], r.pc, timeout_s=60)
        if ob.status == 'sat':
            run.violation('jh%d:step-framing' % outbits, 'Jh%d from an arbitrary state: padding / length field differ from the specification [p=%d n=%d datalen=%#x]' % (outbits, p, n, ob.model.get('datalen', 0)),
                          run.write_replay('jh-step-%d-%d-%d' % (outbits, p, n), {'entry': fname, 'args': entry.arg_hex(args, ob.model), 'model': ob.model}))


def body(run, a):
    assert spec.selftest()
    configs = ['release-std'] if run.tier == 'quick' else ['release-std', 'release-nosimd']
    for c in configs + ['devchk-std']:
        module(c, run)
    check.parallel(run, round_lemma, [(c, r) for c in configs for r in range(42)])
    # (the portable build keeps every 128-bit state word as two 64-bit halves, so its f8 has no SSA values to cut at: there the 42
    #  per-round lemmas above and C03's round-by-round agreement with the x86 arms are the claim)
    check.parallel(run, f8_cut_proof, [('release-std', a_) for a_ in ARMS])
    lens = [0, 1, 55, 56, 63, 64, 65, 119, 120, 128, 129] if run.tier == 'quick' else list(range(0, 200))
    check.parallel(run, framing_case, [('release-std', ob_, L) for ob_ in (224, 256, 384, 512) for L in lens])
    stasks = [('release-std', ob_, p, n) for ob_ in (224, 256, 384, 512) for p in ((0, 1, 55, 56, 63) if run.tier == 'quick' else range(64)) for n in (0, 1, 64 - p, 65)]
    stasks += [('devchk-std', ob_, p, 1) for ob_ in (224, 512) for p in (0, 56)]
    check.parallel(run, step_case, stasks)
    # canary: the lemma must fail against the round with the NEXT constant (shows the round constants matter and the
    # normal forms really discriminate)
    mod = module('release-std', run)
    T.ANF[0] = True
    try:
        Y = T.var('y', 1024)
        args = [Buf('state', 128, init=Y), Sc('from', 64, 3), Sc('to', 64, 4)]
        res, ex = entry.run(mod, 'h_jh_rounds', args)
        r = [x for x in res if x.status == 'ret'][0]
        words = [T.extract(Y, 128 * i, 128) for i in range(8)]
        old = spec.RC[3]
        spec.RC[3] = spec.RC[4]
        bad = T.concat(spec.round_sym(words, 3))
        spec.RC[3] = old
        st, model, dt = check.solve_neq([(r.mem(r.named['state']), bad)], r.pc, 60)
        run.canary('round lemma against the wrong round constant is refuted (sat)', st == 'sat')
    finally:
        T.ANF[0] = False
    run.bounds = {'round lemmas': '42 rounds x every dispatcher arm; 1024 symbolic state bits each', 'F8 assembly': 'state (1024 bits) and block (512 bits) symbolic, every arm',
                  'framing lengths': lens, 'step': '%d cases with symbolic chaining value and byte counter < 2^61' % len(stasks),
                  'outside': 'datalen >= 2^61 bytes (implementation limit: 64-bit bit length)'}
    run.assumptions += ['hook verif_rounds re-uses the crate\'s private ss / l / swap schedule; obligation (2) ties it to the real f8',
                        'layout tracking pos_r (nibble -> word parity, column) is computed mechanically from P_8 and the swap schedule; pos_42 = pos_0 is checked',
                        'reference: nibble-oriented JH specification, validated against 4 published digests; round constants generated by R_6 from C_0',
                        'framing obligations treat f8 as an uninterpreted function (assume-guarantee with (1)+(2))']


if __name__ == '__main__':
    main_wrap(body, 'C06')
