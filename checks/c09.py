#!/usr/bin/env python3-vt
# C09 - Threefish-256/512/1024 encryption conforms to the Skein 1.3 specification (unrolled and no_unroll builds)
from common import *
from specs import threefish as spec

SIZES = {256: 4, 512: 8, 1024: 16}


def case(run, task):
    config, bits = task
    nw = SIZES[bits]
    nb = bits // 8
    mod = module(config, run)
    fname = 'h_tf%d_enc' % bits
    key, blk, t0, t1 = T.var('key', bits), T.var('block', bits), T.var('t0', 64), T.var('t1', 64)
    args = [Buf('key', nb, init=key, writable=False), Sc('t0', 64, t0), Sc('t1', 64, t1), Buf('block', nb, init=blk)]
    t0_ = time.time()
    res, ex = entry.run(mod, fname, args)
    run.exec_s += time.time() - t0_
    run.note_functions(execu.demangle_hint(f) for f in ex.funcs_run)
    exp = spec.encrypt(key, t0, t1, blk, nw)
    for r in res:
        name = 'threefish%d/encrypt/%s' % (bits, config)
        if r.status != 'ret':
            st, model = check.pc_feasible(r.pc)
            ob = check.Obligation(name + '/no-fault')
            ob.n_pairs = 1
            ob.status = 'ok' if st == 'unsat' else st
            ob.detail = r.status + r.detail
            run.add(ob)
            if st == 'sat':
                confirm(run, config, fname, args, model, 'tf%d:fault' % bits, 'Threefish-%d encrypt %s' % (bits, r.status), kind='fault')
            continue
        got = r.mem(r.named['block'])
        pairs = [(T.extract(got, 64 * i, 64), T.extract(exp, 64 * i, 64)) for i in range(nw)]
        ob = run.equal(name, pairs, r.pc, timeout_s=300)
        if ob.status == 'sat':
            confirm(run, config, fname, args, ob.model, 'tf%d:mismatch' % bits, 'Threefish-%d ciphertext differs from the Skein 1.3 reference (%s)' % (bits, config), exp={'block': exp})


def kat(run):
    """translator validation: the repository's own test vector through the encoding"""
    mod = module('release-std', run)
    key, blk, t0, t1 = T.var('key', 256), T.var('block', 256), T.var('t0', 64), T.var('t1', 64)
    args = [Buf('key', 32, init=key, writable=False), Sc('t0', 64, t0), Sc('t1', 64, t1), Buf('block', 32, init=blk)]
    res, ex = entry.run(mod, 'h_tf256_enc', args)
    asg = {'key': int.from_bytes(bytes(range(0x10, 0x30)), 'little'), 't0': int.from_bytes(bytes(range(8)), 'little'),
           't1': int.from_bytes(bytes(range(8, 16)), 'little'), 'block': int.from_bytes(bytes(range(0xff, 0xdf, -1)), 'little')}
    ev = T.Evaluator(asg)
    r = [x for x in res if x.status == 'ret' and all(ev.val(c) == int(v) for c, v in x.pc)][0]      # the path this input takes
    got = ev.val(r.mem(r.named['block'])).to_bytes(32, 'little').hex()
    assert got == 'e0d091ff0eea8fdfc98192e62ed80ad59d865d08588df476657056b5955e97df', got
    run.extra['kats_through_encoding'] = 1


def body(run, a):
    assert spec.selftest()
    kat(run)
    configs = ['release-std', 'release-nounroll', 'devchk-std']
    for c in configs:
        module(c, run)
    check.parallel(run, case, [(c, b) for c in configs for b in SIZES])
    # canaries: wrong rotation constant and wrong permutation in the reference must be distinguished
    mod = module('release-std', run)
    key, blk, t0, t1 = T.var('key', 512), T.var('block', 512), T.var('t0', 64), T.var('t1', 64)
    args = [Buf('key', 64, init=key, writable=False), Sc('t0', 64, t0), Sc('t1', 64, t1), Buf('block', 64, init=blk)]
    res, ex = entry.run(mod, 'h_tf512_enc', args)
    r_ = [x for x in res if x.status == 'ret'][0]
    got = r_.mem(r_.named['block'])
    rot = [list(x) for x in spec.ROT[8]]
    rot[3][2] = 53
    bad = spec.encrypt(key, t0, t1, blk, 8, rot=rot)
    vw = [('key', 512), ('block', 512), ('t0', 64), ('t1', 64)]
    run.canary('reference with R_{3,2} = 53 instead of 54 is distinguished', check.concrete_differs([(got, bad)], [], vw, run.rng) is not None)
    pi = list(spec.PI[8])
    pi[0], pi[2] = pi[2], pi[0]
    bad = spec.encrypt(key, t0, t1, blk, 8, pi=pi)
    run.canary('reference with two permutation entries swapped is distinguished', check.concrete_differs([(got, bad)], [], vw, run.rng) is not None)
    run.bounds = {'key, tweak, block': 'all values (symbolic)', 'sizes': [256, 512, 1024], 'builds': configs, 'outside': 'nothing on values'}
    run.assumptions += ['reference typed from the Skein 1.3 tables (rotation constants, permutation pi in the forward form v[i] = f[pi(i)]), validated against the NIST-submission vectors',
                        'LLVM back end and CPU trusted; panic=abort']


if __name__ == '__main__':
    main_wrap(body, 'C09')
