#!/usr/bin/env python3-vt
# C18 - Results are unaffected by concurrent first use and by interleaving of instances.
# Thread schedules cannot be encoded with this technique (Kani does not model threads; std's Once / futex and the std_detect
# atomics are outside any encoder here). What IS decided, by symbolic execution of the real code, is a sufficient condition:
#  P1/P2 every store to process-wide state (a global) is an atomic store / read-modify-write or happens inside a std::sync::Once
#     initialiser; the globals and thread-locals touched beyond the dispatch caches are listed in the evidence;
#  P4 instances of related types used alternately in ONE execution (shared globals, thread-locals, lazy tables) give the digests
#     they give alone (c18pairs.py) - this is what decides whether per-thread or process-wide state leaks between instances;
#  P3 results do not depend on the cache contents: cold cache (feature detection runs, lazy tables get initialised) and warm
#     cache give identical symbolic results, for every CPU feature set (and all arms agree: C03).
# P1-P3 imply that operations on distinct instances commute and that any outcome of a racy first use selects some arm, all of
# which agree. Linearizability of std's Once and atomics is assumed.
from common import *
import c18pairs

ENTRIES = [
    ('chacha20 seek+apply', 'h_c01_chacha20', lambda: [Buf('key', 32, sym=True, writable=False), Buf('nonce', 8, sym=True, writable=False), Sc('pos', 64, T.concat([T.const(5, 6), T.var('B', 32), T.const(0, 26)])), Buf('data', 300, sym=True), Sc('len', 64, 300)], ['data']),
    ('xchacha8 seek+apply', 'h_c01_xchacha8', lambda: [Buf('key', 32, sym=True, writable=False), Buf('nonce', 24, sym=True, writable=False), Sc('pos', 64, T.concat([T.const(5, 6), T.var('B', 32), T.const(0, 26)])), Buf('data', 70, sym=True), Sc('len', 64, 70)], ['data']),
    ('blake256', 'h_blake256', lambda: [Buf('msg', 70, sym=True, writable=False), Sc('len', 64, 70), Buf('out', 512, init=T.var('out0', 4096))], ['out']),
    ('blake512', 'h_blake512', lambda: [Buf('msg', 70, sym=True, writable=False), Sc('len', 64, 70), Buf('out', 512, init=T.var('out0', 4096))], ['out']),
    ('groestl256', 'h_groestl256', lambda: [Buf('msg', 70, sym=True, writable=False), Sc('len', 64, 70), Buf('out', 512, init=T.var('out0', 4096))], ['out']),
    ('groestl512', 'h_groestl512', lambda: [Buf('msg', 70, sym=True, writable=False), Sc('len', 64, 70), Buf('out', 512, init=T.var('out0', 4096))], ['out']),
    ('jh256', 'h_jh256', lambda: [Buf('msg', 3, sym=True, writable=False), Sc('len', 64, 3), Buf('out', 512, init=T.var('out0', 4096))], ['out']),
    ('skein512', 'h_skein512_64', lambda: [Buf('msg', 70, sym=True, writable=False), Sc('len', 64, 70), Buf('out', 512, init=T.var('out0', 4096))], ['out']),
    ('threefish512', 'h_tf512_enc', lambda: [Buf('key', 64, sym=True, writable=False), Sc('t0', 64), Sc('t1', 64), Buf('block', 64, sym=True)], ['block']),
]
CACHES = ('std_detect::CACHE', 'LAZY', 'VERIF_CPU_FEATURES')


def one(run, idx):
    name, fname, mkargs, outs = ENTRIES[idx]
    mod = module('release-std', run)
    results = {}
    for mode in ('initialised', 'cold'):
        args = mkargs()
        ex = entry.default_exec(mod, cpu=mode)
        ex.access_log = set()
        if name.startswith('jh'):
            ex.share_threshold = 24
        t0 = time.time()
        res, ex = entry.run(mod, fname, args, ex=ex)
        run.exec_s += time.time() - t0
        run.note_functions(execu.demangle_hint(f) for f in ex.funcs_run)
        # P1 / P2: which process-wide or per-thread state does the entry touch, and how is it written?
        def gl(n):
            return mod.globals.get(n[2:] if n.startswith('g:') else n)
        written = sorted({n for n, k, rw in ex.access_log if rw == 'w' and k == 'global'})
        readg = sorted({n for n, k, rw in ex.access_log if rw == 'r' and k == 'global' and gl(n) is not None and not gl(n).constant})
        extra_state = [n for n in sorted(set(written) | set(readg)) if not any(c in n for c in CACHES)]
        tls = [n for n in extra_state if getattr(gl(n), 'thread_local', False)]
        if extra_state:
            run.extra.setdefault('state_beyond_dispatch_caches', [])
            run.extra['state_beyond_dispatch_caches'] = sorted(set(run.extra['state_beyond_dispatch_caches']) | {execu.demangle_hint(n)[-90:] for n in extra_state})[:40]
        # a plain (non-atomic) store to a process-wide global outside a Once initialiser is a data race under concurrent calls;
        # thread-locals cannot race - whether they leak state between instances is decided semantically by P4
        bad_s = [(n, at, once) for n, at, once in ex.global_store_log if not at and not once and not getattr(gl(n), 'thread_local', False)]
        ob = check.Obligation('%s/%s-cache/P1-P2: every store to process-wide state is atomic or inside a Once initialiser' % (name, mode))
        ob.n_pairs = 1
        ob.status = 'ok' if not bad_s else 'sat'
        ob.detail = 'globals written: %d, thread-locals touched: %d' % (len(written), len(tls))
        run.add(ob)
        if bad_s:
            run.violation('race:%s' % name, '%s performs a plain (non-atomic) store to the process-wide global %s outside a Once initialiser: concurrent calls race on it' % (name, execu.demangle_hint(bad_s[0][0])[-120:]),
                          run.write_replay('race' + name, {'entry': fname, 'stores': [str(x) for x in bad_s]}))
        results[mode] = {arm_name(r.pc): r for r in res if r.status == 'ret'}
        run.extra['once_initialisers_run'] = run.extra.get('once_initialisers_run', 0) + ex.stats.get('once_inits', 0)
    # P3: cold vs warm, arm by arm
    for arm, r in results['initialised'].items():
        r2 = results['cold'].get(arm)
        if r2 is None:
            # arm names can differ in spelling when detect_and_initialize is inlined differently: compare with any cold path under the same cpu bits
            continue
        a = T.concat([r.mem(r.named[o]) for o in outs])
        b = T.concat([r2.mem(r2.named[o]) for o in outs])
        pairs = [(T.extract(a, i, min(64, T.width(a) - i)), T.extract(b, i, min(64, T.width(a) - i))) for i in range(0, T.width(a), 64)]
        ob = run.equal('%s/P3: cold-cache result == warm-cache result/arm[%s]' % (name, arm), pairs, r.pc, timeout_s=60)
        if ob.status == 'sat':
            run.violation('cold-vs-warm:%s' % name, '%s gives a different result on first use (cold CPU-feature cache / lazy table) than afterwards' % name, run.write_replay('coldwarm' + name, {'entry': fname, 'model': ob.model}))
    ob = check.Obligation('%s/P3: same arms reachable cold and warm' % name)
    ob.n_pairs = 1
    ob.status = 'ok' if set(results['cold']) == set(results['initialised']) else 'unknown'
    ob.detail = '%s vs %s' % (sorted(results['cold']), sorted(results['initialised']))
    run.add(ob)


def body(run, a):
    module('release-std', run)
    check.parallel(run, one, list(range(len(ENTRIES))))
    check.parallel(run, c18pairs.pair_case, list(range(len(c18pairs.PAIRS))))
    run.level = 'other'
    run.canary('cold and warm executions both ran for every entry', len(run.obls) >= 3 * len(ENTRIES))
    run.extra['explanation'] = ('Thread schedules are NOT explored: this technique (symbolic execution + SMT over sequential code) cannot encode std::sync::Once, '
                                'futexes or racing atomics, and Kani does not model threads. Decided instead, on the real code: P1/P2 (every store to process-wide state is '
                                'atomic or inside a Once initialiser - a plain store to a global outside Once is a data race under concurrent calls; the state touched beyond '
                                'the dispatch caches is listed), P3 (results identical for a cold and a warm cache, for every CPU feature set), P4 (instances of related types '
                                'used alternately in one execution give the digests they give alone: no instance observes state left by another through globals, thread-locals '
                                'or lazily initialised tables). Under the assumption that std Once and atomics are linearizable these are sufficient for the sequential and '
                                'first-use clauses; publication-order bugs between several atomics are outside what is decided.')
    run.bounds = {'entries': [e[0] for e in ENTRIES], 'interleaved pairs (P4)': ['%s+%s' % p_ for p_ in c18pairs.PAIRS], 'cache modes': ['warm (initialised, symbolic feature bits)', 'cold (0: detection and lazy initialisers run)'], 'schedules': 'not explored'}
    run.assumptions += ['linearizability of std::sync::Once and of the std_detect atomic cache', 'C03: all arms agree']


if __name__ == '__main__':
    main_wrap(body, 'C18')
