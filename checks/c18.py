#!/usr/bin/env python3-vt
# C18 - Results are unaffected by concurrent first use and by interleaving of instances.
# Thread schedules cannot be encoded with this technique (Kani does not model threads; std's Once / futex and the std_detect
# atomics are outside any encoder here). What IS decided, by symbolic execution of the real code, is a sufficient condition:
#  P1 frame: every store of every entry goes to the instance / the caller's output / the function's own stack, or to one of
#     the process-wide caches; no other mutable global is written, and no mutable global other than those caches is read;
#  P2 every store to a process-wide cache is an atomic store or happens inside a std::sync::Once initialiser;
#  P3 results do not depend on the cache contents: cold cache (feature detection runs, lazy tables get initialised) and warm
#     cache give identical symbolic results, for every CPU feature set (and all arms agree: C03).
# P1-P3 imply that operations on distinct instances commute and that any outcome of a racy first use selects some arm, all of
# which agree. Linearizability of std's Once and atomics is assumed.
from common import *

ENTRIES = [
    ('chacha20 seek+apply', 'h_c01_chacha20', lambda: [Buf('key', 32, sym=True, writable=False), Buf('nonce', 8, sym=True, writable=False), Sc('pos', 64, T.concat([T.const(5, 6), T.var('B', 32), T.const(0, 26)])), Buf('data', 300, sym=True), Sc('len', 64, 300)], ['data']),
    ('xchacha8 seek+apply', 'h_c01_xchacha8', lambda: [Buf('key', 32, sym=True, writable=False), Buf('nonce', 24, sym=True, writable=False), Sc('pos', 64, T.concat([T.const(5, 6), T.var('B', 32), T.const(0, 26)])), Buf('data', 70, sym=True), Sc('len', 64, 70)], ['data']),
    ('blake256', 'h_blake256', lambda: [Buf('msg', 70, sym=True, writable=False), Sc('len', 64, 70), Buf('out', 512, init=T.var('out0', 4096))], ['out']),
    ('blake512', 'h_blake512', lambda: [Buf('msg', 70, sym=True, writable=False), Sc('len', 64, 70), Buf('out', 512, init=T.var('out0', 4096))], ['out']),
    ('groestl256', 'h_groestl256', lambda: [Buf('msg', 70, sym=True, writable=False), Sc('len', 64, 70), Buf('out', 512, init=T.var('out0', 4096))], ['out']),
    ('groestl512', 'h_groestl512', lambda: [Buf('msg', 70, sym=True, writable=False), Sc('len', 64, 70), Buf('out', 512, init=T.var('out0', 4096))], ['out']),
    ('jh256', 'h_jh256', lambda: [Buf('msg', 3, sym=True, writable=False), Sc('len', 64, 3), Buf('out', 512, init=T.var('out0', 4096))], ['out']),
    ('skein512', 'h_skein512_64', lambda: [Buf('msg', 70, sym=True, writable=False), Sc('len', 64, 70), Buf('out', 512, init=T.var('out0', 4096))], ['out']),
    ('threefish512', 'h_tf512_enc', lambda: [Buf('key', 64, sym=True, writable=False), Sc('t0', 64), Sc('t1', 64), Buf('block', 64, sym=True)], ['block']),
]
CACHES = ('std_detect::CACHE', 'LAZY', 'VERIF_CPU_FEATURES')


def one(run, idx):
    name, fname, mkargs, outs = ENTRIES[idx]
    mod = module('release-std', run)
    results = {}
    for mode in ('initialised', 'cold'):
        args = mkargs()
        ex = entry.default_exec(mod, cpu=mode)
        ex.access_log = set()
        if name.startswith('jh'):
            ex.share_threshold = 24
        t0 = time.time()
        res, ex = entry.run(mod, fname, args, ex=ex)
        run.exec_s += time.time() - t0
        run.note_functions(execu.demangle_hint(f) for f in ex.funcs_run)
        # P1: frame
        written = {(n, k) for n, k, rw in ex.access_log if rw == 'w'}
        readg = {(n, k) for n, k, rw in ex.access_log if rw == 'r' and k == 'global'}
        bad_w = [n for n, k in written if k == 'global' and not any(c in n for c in CACHES)]
        ob = check.Obligation('%s/%s-cache/P1-frame: stores only to instance, outputs, stack, process-wide caches' % (name, mode))
        ob.n_pairs = 1
        ob.status = 'ok' if not bad_w else 'sat'
        run.add(ob)
        if bad_w:
            tl = [n for n in bad_w if getattr(mod.globals.get(n[2:]), 'thread_local', False)]
            run.violation('frame:%s' % name, '%s writes %s that is not a dispatch cache (state shared by independent instances): %s' % (name, 'a thread-local' if tl else 'a mutable global', (tl or bad_w)[:2]), run.write_replay('frame' + name, {'entry': fname, 'globals_written': bad_w}))
        bad_r = [n for n, k in readg if not any(c in n for c in CACHES) and (mod.globals.get(n[2:]) is not None and not mod.globals[n[2:]].constant)]
        ob = check.Obligation('%s/%s-cache/P1-frame: mutable globals read are only the caches' % (name, mode))
        ob.n_pairs = 1
        ob.status = 'ok' if not bad_r else 'sat'
        run.add(ob)
        if bad_r:
            run.violation('frame-read:%s' % name, '%s reads a mutable global that is not a dispatch cache: %s' % (name, bad_r[:2]), run.write_replay('frameread' + name, {'entry': fname, 'globals_read': bad_r}))
        # P2: atomic or inside Once
        # (a plain store to a thread_local is not a data race; it is per-thread state shared by all instances on that thread: P1's business)
        bad_s = [(n, at, once) for n, at, once in ex.global_store_log if not at and not once and not getattr(mod.globals.get(n[2:] if n.startswith('g:') else n), 'thread_local', False)]
        ob = check.Obligation('%s/%s-cache/P2: every store to a global is atomic or inside a Once initialiser' % (name, mode))
        ob.n_pairs = 1
        ob.status = 'ok' if not bad_s else 'sat'
        run.add(ob)
        if bad_s:
            run.violation('race:%s' % name, '%s performs a plain (non-atomic) store to global %s outside a Once initialiser' % (name, bad_s[0][0]), run.write_replay('race' + name, {'entry': fname, 'stores': [str(x) for x in bad_s]}))
        results[mode] = {arm_name(r.pc): r for r in res if r.status == 'ret'}
        run.extra['once_initialisers_run'] = run.extra.get('once_initialisers_run', 0) + ex.stats.get('once_inits', 0)
    # P3: cold vs warm, arm by arm
    for arm, r in results['initialised'].items():
        r2 = results['cold'].get(arm)
        if r2 is None:
            # arm names can differ in spelling when detect_and_initialize is inlined differently: compare with any cold path under the same cpu bits
            continue
        a = T.concat([r.mem(r.named[o]) for o in outs])
        b = T.concat([r2.mem(r2.named[o]) for o in outs])
        pairs = [(T.extract(a, i, min(64, T.width(a) - i)), T.extract(b, i, min(64, T.width(a) - i))) for i in range(0, T.width(a), 64)]
        ob = run.equal('%s/P3: cold-cache result == warm-cache result/arm[%s]' % (name, arm), pairs, r.pc, timeout_s=60)
        if ob.status == 'sat':
            run.violation('cold-vs-warm:%s' % name, '%s gives a different result on first use (cold CPU-feature cache / lazy table) than afterwards' % name, run.write_replay('coldwarm' + name, {'entry': fname, 'model': ob.model}))
    ob = check.Obligation('%s/P3: same arms reachable cold and warm' % name)
    ob.n_pairs = 1
    ob.status = 'ok' if set(results['cold']) == set(results['initialised']) else 'unknown'
    ob.detail = '%s vs %s' % (sorted(results['cold']), sorted(results['initialised']))
    run.add(ob)


def body(run, a):
    module('release-std', run)
    check.parallel(run, one, list(range(len(ENTRIES))))
    run.level = 'other'
    run.canary('cold and warm executions both ran for every entry', len(run.obls) >= 6 * len(ENTRIES))
    run.extra['explanation'] = ('Thread schedules are NOT explored: this technique (symbolic execution + SMT over sequential code) cannot encode std::sync::Once, '
                                'futexes or racing atomics, and Kani does not model threads. Decided instead, on the real code: P1 frame (stores only to the instance, '
                                'the caller output, the stack and the process-wide dispatch caches; no other mutable global read), P2 (every store to such a cache is atomic '
                                'or inside a Once initialiser), P3 (results identical for a cold and a warm cache, for every CPU feature set). P1-P3 are sufficient for the '
                                'property under the assumption that std Once and atomics are linearizable; they are not necessary, and a violation of them is reported as '
                                'such (a global written non-atomically outside Once is a data race under concurrent calls).')
    run.bounds = {'entries': [e[0] for e in ENTRIES], 'cache modes': ['warm (initialised, symbolic feature bits)', 'cold (0: detection and lazy initialisers run)'], 'schedules': 'not explored'}
    run.assumptions += ['linearizability of std::sync::Once and of the std_detect atomic cache', 'C03: all arms agree']


if __name__ == '__main__':
    main_wrap(body, 'C18')
