import os
import sys
import time

sys.path.insert(0, os.path.dirname(os.path.dirname(os.path.abspath(__file__))))
from llsym import terms as T, build, execu, entry, check  # noqa
from llsym.entry import Buf, Sc  # noqa
from llsym.ir import Unsupported  # noqa
from llsym.execu import Inconclusive  # noqa

_mods = {}


def module(config, run=None):
    m = _mods.get(config)
    if m is None:
        m = build.load(config)
        _mods[config] = m
    if run is not None:
        run.builds[config] = {'build_s': round(m.build_s, 2), 'parse_s': round(m.parse_s, 2), 'ir_files': [os.path.basename(f) for f in m.files]}
    return m


def arm_name(pc):
    """name the dispatch arm from the path condition over the cpu-feature word"""
    bits = []
    for c, v in pc:
        names, _ = T.support([c])
        if names == {'cpu'}:
            # c is eqz(cpu[k]) : True means feature absent
            nid = T.single_node(c)
            k = None
            if nid is not None and T.nodes[nid][0] == 'eqz':
                leaves = T.nodes[nid][2][0][0]
                if len(leaves) == 1:
                    k = leaves[0][1]
            else:
                # 1-bit xor form: cpu[k] ^ 1
                l = c[0][0]
                if len(l) == 1:
                    k = l[0][1]
                    v = not v if c[0][1] == 0 else v
            bits.append(('%s%s' % ('!' if v else '', FEATURE.get(k, 'bit%s' % k))))
    return ','.join(bits) if bits else 'single'


# std_detect feature bit positions for this toolchain, as observed in the dispatcher IR and validated by setup
FEATURE = {15: 'avx2', 14: 'avx', 10: 'sse4.1', 9: 'ssse3', 6: 'sse2'}


def profile_of(config):
    feats = list(build.CONFIGS[config][0])
    return ('debug' if config.startswith('devchk') else 'release'), tuple(feats)


def confirm(run, config, fname, args, model, key, what, exp=None, kind='mismatch', exp_ret=None, ufs=None):
    """replay a solver counterexample natively (same profile, same simulated CPU feature set) and report it only if it
    reproduces. exp: {buffer name: expected term}; kind: 'mismatch' | 'fault' | 'ret'"""
    prof, feats = profile_of(config)
    model = dict(model or {})
    tf = ' '.join(x for x in build.CONFIGS[config][1].replace('-C ', '-C').split() if 'target-feature' in x).replace('-C', '-C ')
    rp = entry.replay(fname, args, model, prof, feats, ufs=ufs, rustflags=tf)
    payload = {'entry': fname, 'config': config, 'profile': prof, 'features': list(feats), 'cpu': entry.cpu_mask(model), 'rustflags': tf,
               'args': entry.arg_hex(args, model, ufs), 'native': rp, 'kind': kind, 'what': what}
    reproduced = False
    if kind == 'fault':
        reproduced = rp['status'] != 'ok'
    elif kind == 'ret':
        payload['expected_ret'] = exp_ret
        reproduced = rp['status'] != 'ok' or (rp['ret'] is not None and str(rp['ret']) != str(exp_ret))
    else:
        ev = T.Evaluator(model, ufs)
        want = []
        for b in entry.mutable_bufs(args):
            t = (exp or {}).get(b.name)
            want.append(None if t is None else ev.val(t).to_bytes(b.size, 'little').hex())
        payload['expected'] = want
        if rp['status'] != 'ok':
            reproduced = True
        else:
            for w, g in zip(want, rp['outputs']):
                if w is not None and w != g:
                    reproduced = True
    if reproduced:
        path = run.write_replay(key + '|' + what, payload)
        run.violation(key, what + ' (native: %s)' % rp['status'], path)
    else:
        run.inconclusive.append('counterexample not reproduced natively: %s [%s]' % (what, key))
    return reproduced


def split_ret(r, values):
    """case split on a (possibly symbolic) small return code: yields (code, path condition)"""
    rv = r.ret
    if T.is_const(rv):
        return [(T.cval(rv), r.pc)]
    out = []
    w = T.width(rv)
    for v in values:
        c = T.eq(rv, T.const(v, w))
        if T.is_const(c):
            if T.cval(c):
                out.append((v, r.pc))
            continue
        pcx = list(r.pc) + [(c, True)]
        st, _ = check.pc_feasible(pcx)
        if st != 'unsat':
            out.append((v, pcx))
    # anything outside the listed values?
    rest = list(r.pc) + [(T.eq(rv, T.const(v, w)), False) for v in values if not T.is_const(T.eq(rv, T.const(v, w)))]
    st, _ = check.pc_feasible(rest)
    if st != 'unsat':
        out.append((-1, rest))
    return out


def replay_file(pid, path):
    """re-run a stored counterexample natively against /repo's current tree; exit 1 if it still reproduces"""
    import json
    import subprocess
    d = json.load(open(path))
    prof = d.get('profile', 'release')
    feats = tuple(d.get('features', ['std']))
    b = entry.replay_bin(prof, feats, d.get('rustflags', ''))
    env = dict(os.environ)
    if d.get('cpu') is not None:
        env['VERIF_CPU'] = str(d['cpu'])
    p = subprocess.run([b, d['entry']] + d['args'], stdout=subprocess.PIPE, stderr=subprocess.PIPE, text=True, env=env)
    outs = [l for l in p.stdout.split('\n') if l and not l.startswith('ret=')]
    print('native run: exit=%d' % p.returncode, p.stderr.strip()[-300:])
    bad = False
    ret = [l[4:] for l in p.stdout.split('\n') if l.startswith('ret=')]
    if d.get('kind') == 'ret':
        bad = p.returncode != 0 or (ret and ret[0] != str(d.get('expected_ret')))
        print('expected ret:', d.get('expected_ret'), 'got:', ret)
    elif d.get('expected') is not None:
        bad = p.returncode != 0 or any(w is not None and w != g for w, g in zip(d['expected'], outs))
        print('expected:', d['expected'])
        print('got     :', outs)
    else:
        bad = p.returncode != 0
    if bad:
        print('VIOLATION property=%s replay=%s' % (pid, path))
        return 1
    print('does not reproduce on the current tree')
    return 0


def main_wrap(fn, pid):
    """uniform exit-code handling: 0 ok, 1 violation, 2 inconclusive / tool error"""
    import traceback
    import argparse
    import faulthandler
    import signal
    faulthandler.register(signal.SIGUSR1, all_threads=True)     # kill -USR1 <pid> dumps the python stack (debugging aid)
    ap = argparse.ArgumentParser()
    ap.add_argument('--tier', default=os.environ.get('VERIF_TIER', 'quick'))
    ap.add_argument('--replay', default=None)
    a = ap.parse_args()
    if a.replay:
        sys.exit(replay_file(pid, a.replay))
    run = check.Run(pid, a.tier)
    try:
        fn(run, a)
    except build.BuildError as e:
        print('BUILD ERROR:', e, '\n', e.log[-2000:])
        run.inconclusive.append('build error: %s' % e)
    except (Unsupported, Inconclusive) as e:
        traceback.print_exc()
        run.inconclusive.append('%s: %s' % (type(e).__name__, e))
    except Exception as e:
        traceback.print_exc()
        run.inconclusive.append('tool error: %s: %s' % (type(e).__name__, e))
    rc = run.finish()
    sys.exit(rc)
