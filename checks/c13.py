#!/usr/bin/env python3-vt
# C13 - ppv-lite86 data movement is lossless and consistently ordered on every backend
from common import *
import vecgrid
if __name__ == '__main__':
    main_wrap(vecgrid.body_for('C13'), 'C13')
