#!/usr/bin/env python3-vt
# C01 - ChaCha keystream equals the specified function at every position; applying it XORs exactly those bytes.
# End to end through the RustCrypto API: new -> try_seek(64*B+o) -> try_apply_keystream(data[..L]) for the 7 aliases,
# key / nonce / block number B / data symbolic; o and L enumerated (they steer loop structure).
from common import *
from specs import chacha as spec

ALIASES = {  # name: (nonce bytes, double rounds, kind)
    'ietf': (12, 10, 'ietf'), 'chacha8': (8, 4, 'djb'), 'chacha12': (8, 6, 'djb'), 'chacha20': (8, 10, 'djb'),
    'xchacha8': (24, 4, 'x'), 'xchacha12': (24, 6, 'x'), 'xchacha20': (24, 10, 'x'),
}


def pos_term(kind, o):
    if kind == 'ietf':
        # block number confined to 32 bits; positions beyond 2^38 are C11's subject
        return T.concat([T.const(o, 6), T.var('B', 32), T.const(0, 26)]), T.zext(T.var('B', 32), 64)
    return T.concat([T.const(o, 6), T.var('B', 58)]), T.zext(T.var('B', 58), 64)


def keystream(alias, nblocks, Bz, rot=spec.ROT):
    nb, dr, kind = ALIASES[alias]
    key, nonce = T.var('key', 256), T.var('nonce', 8 * nb)
    out = []
    for i in range(nblocks):
        c = T.add(Bz, T.const(i, 64))
        if kind == 'ietf':
            out.append(spec.block_ietf(key, nonce, T.extract(c, 0, 32), dr, rot))
        elif kind == 'djb':
            out.append(spec.block_djb(key, nonce, c, dr, rot))
        else:
            out.append(spec.block_x(key, nonce, c, dr, rot))
    return T.concat(out) if out else ()


def case(run, task):
    config, alias, o, L = task
    nb, dr, kind = ALIASES[alias]
    mod = module(config, run)
    pos, Bz = pos_term(kind, o)
    fname = 'h_c01_' + alias
    args = [Buf('key', 32, sym=True, writable=False), Buf('nonce', nb, sym=True, writable=False), Sc('pos', 64, pos),
            Buf('data', L, sym=True), Sc('len', 64, L)]
    t0 = time.time()
    res, ex = entry.run(mod, fname, args)
    run.exec_s += time.time() - t0
    run.note_functions(execu.demangle_hint(f) for f in ex.funcs_run)
    nblocks = (o + L + 63) // 64
    ks = keystream(alias, nblocks, Bz)
    data = T.var('data', 8 * L)
    exp = T.bxor(data, T.extract(ks, 8 * o, 8 * L)) if L else ()
    for r in res:
        name = 'seek_apply/%s/%s/o=%d/L=%d/arm[%s]' % (alias, config, o, L, arm_name(r.pc))
        if r.status != 'ret':
            st, model = check.pc_feasible(r.pc)
            ob = check.Obligation(name + '/no-fault')
            ob.n_pairs = 1
            ob.status = 'ok' if st == 'unsat' else ('sat' if st == 'sat' else 'unknown')
            ob.detail = r.status + ' ' + r.detail
            run.add(ob)
            if st == 'sat':
                confirm_c01(run, config, fname, args, model, r, None, 'fault:' + r.status.split(':')[0], '%s %s' % (r.status, r.detail[:160]), alias, o, L)
            continue
        for code, pcx in split_ret(r, (0, 1, 2)):
            case_ret(run, r, code, pcx, name, config, fname, args, exp, data, alias, o, L, kind)


def case_ret(run, r0, code, pcx, name, config, fname, args, exp, data, alias, o, L, kind):
    class R:
        pass
    r = R()
    r.pc = pcx
    r.named = r0.named
    r.mem = r0.mem
    if True:
        got = r.mem(r.named['data']) if L else ()
        if code == 0:
            if L:
                def specf():
                    nblocks = (o + L + 63) // 64
                    pos_, Bz_ = pos_term(kind, o)
                    return T.bxor(data, T.extract(keystream(alias, nblocks, Bz_), 8 * o, 8 * L))
                ob = run.equal_spec(name, got, specf, r.pc, timeout_s=300 if run.tier == 'thorough' else 120)
            else:
                ob = run.equal(name, [], r.pc)
            if ob.status == 'sat':
                confirm_c01(run, config, fname, args, ob.model, r, exp, 'mismatch', 'keystream differs from the reference', alias, o, L)
        else:
            # an error return is only legitimate for the 32-bit-counter variant when the request passes 2^38 bytes;
            # here: error => data untouched, and (IETF) B + blocks needed > 2^32; the exact iff is C11's subject
            pairs = [(got, data)] if L else []
            ob = run.equal(name + '/err=%d/data-untouched' % code, pairs or [((), ())], r.pc)
            if kind != 'ietf' or code == 1:
                st, model = check.pc_feasible(r.pc)
                ob2 = check.Obligation(name + '/err=%d/unreachable' % code)
                ob2.n_pairs = 1
                ob2.status = 'ok' if st == 'unsat' else ('sat' if st == 'sat' else 'unknown')
                run.add(ob2)
                if st == 'sat':
                    confirm_c01(run, config, fname, args, model, r, None, 'spurious-error', 'returns error code %d' % code, alias, o, L)
            else:
                # IETF apply error: must imply B*64 + o + L > 2^38
                lim = T.ult(T.const(1 << 38, 64), T.add(T.concat([T.const(o, 6), T.var('B', 32), T.const(0, 26)]), T.const(L, 64)))
                st, model, dt = check.solve_neq([(lim, T.const(1, 1))], r.pc, 60, congruence=False)
                ob2 = check.Obligation(name + '/err=2/only-past-2^38')
                ob2.n_pairs = 1
                ob2.status = 'unsat' if st in ('unsat', 'identical') else st
                ob2.solver_s = dt
                run.add(ob2)
                if st == 'sat':
                    confirm_c01(run, config, fname, args, model, r, None, 'spurious-error', 'IETF apply fails before 2^38', alias, o, L)


def confirm_c01(run, config, fname, args, model, r, exp, kind, what, alias, o, L):
    key = '%s:%s' % (alias, kind)
    what = '%s [%s o=%d L=%d %s arm %s]' % (what, alias, o, L, config, arm_name(r.pc))
    if kind == 'mismatch':
        confirm(run, config, fname, args, model, key, what, exp={'data': exp})
    elif kind.startswith('fault'):
        confirm(run, config, fname, args, model, key, what, kind='fault')
    else:
        confirm(run, config, fname, args, model, key, what, kind='ret', exp_ret=0)


def kat_through_encoding(run):
    """translator validation: the repo's own RFC 7539 vector pushed through the encoding (concrete evaluation of the
    terms produced by symbolic execution) must equal the published ciphertext prefix"""
    mod = module('release-std', run)
    key = bytes(range(32))
    nonce = bytes.fromhex('000000000000004a00000000')
    pt = b"Ladies and Gentlemen of the class of '99: If I could offer you only one tip for the future, sunscreen would be it."
    L = len(pt)
    args = [Buf('key', 32, sym=True, writable=False), Buf('nonce', 12, sym=True, writable=False), Sc('pos', 64), Buf('data', L, sym=True), Sc('len', 64, L)]
    args[2] = Sc('pos', 64, T.concat([T.const(0, 6), T.var('B', 32), T.const(0, 26)]))
    res, ex = entry.run(mod, 'h_c01_ietf', args)
    asg = {'key': int.from_bytes(key, 'little'), 'nonce': int.from_bytes(nonce, 'little'), 'B': 1, 'data': int.from_bytes(pt, 'little'), 'cpu': 0}
    n = 0
    exp = bytes.fromhex('6e2e359a2568f98041ba0728dd0d6981e97e7aec1d4360c20a27afccfd9fae0bf91b65c5524733ab8f593dabcd62b357'
                        '1639d624e65152ab8f530c359f0861d807ca0dbf500d6a6156a38e088a22b65e52bc514d16ccf806818ce91ab7793736'
                        '5af90bbf74a35be6b40b8eedf2785e42874d')
    for r in res:
        ev = T.Evaluator(asg)
        if r.status == 'ret' and all(ev.val(c) == int(v) for c, v in r.pc):
            got = ev.val(r.mem(r.named['data'])).to_bytes(L, 'little')
            assert got == exp, (got.hex(), exp.hex())
            n += 1
    assert n == 1
    run.extra['kats_through_encoding'] = run.extra.get('kats_through_encoding', 0) + n


def canary(run):
    mod = module('release-std', run)
    for alias in ('chacha20', 'xchacha12', 'ietf'):
        nb, dr, kind = ALIASES[alias]
        pos, Bz = pos_term(kind, 5)
        L = 70
        args = [Buf('key', 32, sym=True, writable=False), Buf('nonce', nb, sym=True, writable=False), Sc('pos', 64, pos), Buf('data', L, sym=True), Sc('len', 64, L)]
        res, ex = entry.run(mod, 'h_c01_' + alias, args)
        r = [x for x in res if x.status == 'ret' and any(code == 0 for code, _ in split_ret(x, (0, 1, 2)))][0]
        bad = T.bxor(T.var('data', 8 * L), T.extract(keystream(alias, 2, Bz, rot=(16, 12, 8, 9)), 40, 8 * L))
        vw = [('key', 256), ('nonce', 8 * nb), ('B', 58), ('data', 8 * L), ('cpu', 63)]
        asg = check.concrete_differs([(r.mem(r.named['data']), bad)], [], vw, run.rng, tries=8)
        run.canary('%s: reference with rotation 7->9 is distinguished' % alias, asg is not None)


def body(run, a):
    assert spec.selftest()
    kat_through_encoding(run)
    if run.tier == 'quick':
        grid = [(0, 0), (0, 1), (1, 63), (63, 65), (0, 256), (5, 300), (63, 257), (0, 330), (61, 600)]     # the last two: blocks AFTER a wide (4-block) refill
        configs = ['release-std', 'release-nosimd']
        cfg_alias = [(c, al) for c in configs for al in ALIASES]
    else:
        # every offset in a block x the length classes, plus two dense length sweeps; the phase budget of the thorough tier decides
        # how much of this (seed-shuffled) grid is explored in one run - the evidence records explored / skipped counts
        grid = [(o, L) for o in range(64) for L in sorted({0, 1, 64 - o, 65, 256 + (64 - o) % 64, 330, 600})]
        grid += [(o, L) for o in (0, 37) for L in range(0, 1101, 1) if (o, L) not in grid and (L % 7 == 0 or L < 140)]
        configs = ['release-std', 'release-nosimd', 'devchk-std']
        cfg_alias = [(c, al) for c in configs for al in ALIASES]
    tasks = []
    for c, al in cfg_alias:
        for o, L in grid:
            if c != 'release-std' and run.tier == 'quick' and (o, L) not in [(1, 63), (63, 65), (5, 300), (0, 330)]:
                continue
            if c != 'release-std' and run.tier == 'thorough' and not (o in (0, 1, 37, 63) and L in (0, 1, 27, 63, 64, 65, 256, 300, 330, 600)):
                continue
            tasks.append((c, al, o, L))
    for c in configs:
        module(c, run)
    if run.tier == 'thorough':
        # phase 1: the quick tier's cases (always complete), phase 2: the rest of the grid within the phase budget
        qgrid = [(0, 0), (0, 1), (1, 63), (63, 65), (0, 256), (5, 300), (63, 257), (0, 330), (61, 600)]
        first = [(c, al, o, L) for c in ('release-std', 'release-nosimd') for al in ALIASES for o, L in qgrid if c == 'release-std' or (o, L) in [(1, 63), (63, 65), (5, 300), (0, 330)]]
        check.parallel(run, case, first)
        tasks = [t for t in tasks if t not in set(first)]
    check.parallel(run, case, tasks)
    canary(run)
    run.bounds = {'offset o in block': sorted({t[2] for t in tasks}), 'request length L': '%d distinct values, max %d' % (len({t[3] for t in tasks}), max(t[3] for t in tasks)),
                  'block number': 'symbolic: 58 bits (64-bit-counter types), 32 bits (IETF)', 'key/nonce/data': 'symbolic',
                  'configs': configs, 'aliases': sorted(ALIASES), 'cases': len(tasks),
                  'outside': 'single calls longer than the largest L (covered structurally by C02 step + C14), IETF positions beyond 2^38 (C11)'}
    run.assumptions += ['XChaCha8/12 are defined as the XChaCha20 construction with 8/12 rounds (as the crate documents)',
                        'each caller slice is its own memory object with exact bounds (out-of-slice access = fault) and guaranteed alignment 1',
                        'LLVM back end and CPU trusted; harness built with panic=abort']


if __name__ == '__main__':
    main_wrap(body, 'C01')
