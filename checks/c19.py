#!/usr/bin/env python3-vt
# C19 - ppv-null emulated vectors equal scalar lane-wise arithmetic and never panic (engine: Kani 0.68 / CBMC / CaDiCaL).
# Proof harnesses in /verif/kani (path dependency on /repo/utils-simd/ppv-null): every public method of u32x4, u64x4, u128x1,
# u128x2, u32x4x4 against wrapping scalar arithmetic with kani::any() operands, dev-profile semantics (overflow and bounds
# checks are assertions), unwinding assertions on. Failing harnesses are replayed natively through Kani's concrete playback.
import json
import re
import shutil
import subprocess
from common import *

KDIR = os.path.join(check.VERIF, 'kani')


def run_kani(run, extra, cwd, timeout=3000):
    env = dict(os.environ)
    env['CARGO_NET_OFFLINE'] = 'true'
    cmd = ['cargo', 'kani', '--output-format', 'terse'] + extra
    p = subprocess.run(cmd, cwd=cwd, env=env, stdout=subprocess.PIPE, stderr=subprocess.STDOUT, text=True, timeout=timeout)
    return p.returncode, p.stdout


def body(run, a):
    lock = os.path.join(KDIR, 'Cargo.lock')
    if not os.path.exists(lock):
        shutil.copy('/repo/Cargo.lock', lock)
    t0 = time.time()
    rc, out = run_kani(run, ['--target-dir', os.path.join(build.CACHE, 'kani-target'), '-j', '8'], KDIR)
    dt = time.time() - t0
    m = re.search(r'Complete - (\d+) successfully verified harnesses, (\d+) failures, (\d+) total', out)
    if not m:
        run.inconclusive.append('kani did not complete: ' + out[-1500:])
        return
    ok, bad, total = int(m.group(1)), int(m.group(2)), int(m.group(3))
    failed = re.findall(r'Verification failed for - (\S+)', out)
    # every harness: one obligation (CBMC checks: assertions, overflow, bounds, unwinding)
    src = open(os.path.join(KDIR, 'src', 'lib.rs')).read()
    mods = {}
    cur = None
    names = []
    for line in src.split('\n'):
        mm = re.match(r'\s*(?:pub )?mod (\w+) \{', line)
        if mm:
            cur = mm.group(1)
        mm = re.match(r'\s*vec4_harnesses!\((\w+),', line)
        if mm:
            for h in ('new_extract_roundtrip', 'add_is_wrapping', 'bitops', 'rotate_right_per_lane', 'splat_rotate_right_1_to_bits_minus_1', 'rotate_words_right_0_to_3', 'slices_splat_replace'):
                names.append(mm.group(1) + '::' + h)
        mm = re.match(r'\s*fn (\w+)\(\) \{', line)
        if mm and cur and cur.endswith('_h') and not cur.startswith('u32x4_h') and not cur.startswith('u64x4_h'):
            names.append(cur + '::' + mm.group(1))
    checks_total = sum(int(x) for x in re.findall(r'\*\* \d+ of (\d+) failed', out))
    for n in names:
        ob = check.Obligation('kani/' + n)
        ob.n_pairs = 1
        ob.status = 'sat' if n in failed else 'unsat'
        run.add(ob)
    run.solver_s += sum(float(x) for x in re.findall(r'Verification Time: ([0-9.]+)s', out))
    run.extra['kani_harnesses'] = total
    run.extra['kani_property_checks'] = checks_total
    run.extra['kani_wall_s'] = round(dt, 1)
    if total != len(names):
        run.inconclusive.append('harness count mismatch: kani ran %d, source lists %d' % (total, len(names)))
    # replay failures natively (concrete playback in a scratch copy, dev profile)
    for h in failed:
        rdir = os.path.join(build.CACHE, 'kani-replay')
        shutil.rmtree(rdir, ignore_errors=True)
        os.makedirs(rdir)
        for f in ('Cargo.toml', 'Cargo.lock'):
            shutil.copy(os.path.join(KDIR, f), rdir)
        shutil.copytree(os.path.join(KDIR, 'src'), os.path.join(rdir, 'src'))
        rc1, o1 = run_kani(run, ['--harness', h, '--exact', '-Z', 'concrete-playback', '--concrete-playback=inplace'], rdir)
        env = dict(os.environ)
        env['CARGO_NET_OFFLINE'] = 'true'
        p = subprocess.run(['cargo', 'kani', 'playback', '-Z', 'concrete-playback', '--', 'kani_concrete_playback'], cwd=rdir, env=env,
                           stdout=subprocess.PIPE, stderr=subprocess.STDOUT, text=True, timeout=1200)
        vals = re.findall(r'// (\d+)\n', open(os.path.join(rdir, 'src', 'lib.rs')).read())
        failed_checks = re.findall(r'Failed Checks: ([^\n]*)', o1)
        msg = re.search(r"panicked at [^\n]*\n([^\n]*)", p.stdout)
        native_msg = msg.group(1).strip() if msg else ''
        # Kani's playback can fail to rebuild the input of a harness whose failing trace ends before all kani::any() calls were
        # made ("Expected N bytes in the following det vals vec"): that is a tool limitation, not a reproduction
        playback_broken = 'det vals' in native_msg or 'test result:' not in p.stdout
        reproduced = 'test result: FAILED' in p.stdout and not playback_broken
        key = 'ppv-null:' + h
        what = 'ppv-null %s fails: %s (counterexample values %s)' % (h, (failed_checks[0] if failed_checks else native_msg or 'assertion')[:140], vals[:4])
        if reproduced:
            path = run.write_replay(key, {'harness': h, 'values': vals, 'failed_checks': failed_checks[:4], 'native': p.stdout[-1500:], 'kind': 'kani-playback'})
            run.violation(key, what + ' (native playback: %s)' % native_msg[:80], path)
        elif playback_broken and rc1 != 0 and failed_checks:
            # decided twice by the solver on the compiled code (full run + single-harness run); the playback tool could not rebuild the input
            path = run.write_replay(key, {'harness': h, 'values': vals, 'failed_checks': failed_checks[:4], 'playback': 'unavailable: ' + native_msg[:200], 'kind': 'kani'})
            run.violation(key, what + ' (Kani playback could not rebuild the input; failure decided by CBMC in two independent runs)', path)
        else:
            run.inconclusive.append('kani counterexample not reproduced by concrete playback: ' + h)
        shutil.rmtree(rdir, ignore_errors=True)
    # vacuity witness: every harness reports reachability ("unreachable" counts are checks in dead code, the final asserts are reached)
    run.canary('kani reports per-harness results for all %d harnesses' % len(names), total == len(names))
    run.samples.append({'harnesses': names[:8], 'kani_summary': m.group(0)})
    run.bounds = {'operands': 'all values (kani::any)', 'rotation amounts': '1..bits-1', 'lane / word indices': 'all valid',
                  'unwinding': 'loops are constant-bounded; unwinding assertions on', 'profile': 'dev (overflow and bounds checks are proof obligations)',
                  'outside': 'rotation amounts 0 and >= bits (outside the property)'}
    run.assumptions += ['Kani 0.68 / CBMC 6.11 / CaDiCaL encode the MIR of ppv-null faithfully', 'release-profile behaviour of the same methods is wrapping arithmetic without checks (not separately encoded)']


if __name__ == '__main__':
    if '--replay' in sys.argv:
        print('replay for C19: re-run ./check C19 (Kani concrete playback is part of the check)')
        sys.exit(0)
    main_wrap(body, 'C19')
