#!/usr/bin/env python3-vt
# C11 - ChaCha keystream exhaustion is an atomic error, never a silent counter wrap.
# Same inductive-step entries as C02 (chacha_step.py), restricted to the clauses C11 names, with the counter symbolic so that
# "within a few blocks of 0, of 2^32 blocks, of 2^38 bytes, of 2^64 bytes" are all inside one query family:
#  * IETF: from any Inv state apply(n) is Ok iff P+n <= 2^38; a failed apply leaves data, P and Inv intact; nonce words never change
#  * IETF: try_seek(p) is Ok iff p <= 2^38 and an error (not a panic) otherwise, for every SeekNum type and value
#  * 64-bit types: apply never reports exhaustion (counter < 2^58), the counter never wraps in range
# plus end-of-stream scenarios on the REAL cores (wide path included) through the end-to-end entry.
from common import *
import chacha_step as S
import c01


def apply_chunk(run, chunk):
    for t in chunk:
        S.apply_case(run, t)


def seek_chunk(run, chunk):
    for t in chunk:
        S.seek_case(run, t)


def endofstream(run, task):
    """real cores: IETF requests ending at / one byte past 2^38, reached by seek; B concrete near the end, data symbolic"""
    config, back, L = task
    mod = module(config, run)
    pos = (1 << 38) - back
    args = [Buf('key', 32, sym=True, writable=False), Buf('nonce', 12, sym=True, writable=False), Sc('pos', 64, pos), Buf('data', L, sym=True), Sc('len', 64, L)]
    res, ex = entry.run(mod, 'h_c01_ietf', args)
    run.note_functions(execu.demangle_hint(f) for f in ex.funcs_run)
    from specs import chacha as spec
    key, nonce, data = T.var('key', 256), T.var('nonce', 96), T.var('data', 8 * L)
    b0, o = divmod(pos, 64)
    want_ok = pos + L <= (1 << 38)
    for r in res:
        name = 'ietf-end/%s/pos=2^38-%d/L=%d/arm[%s]' % (config, back, L, arm_name(r.pc))
        if r.status != 'ret':
            st, model = check.pc_feasible(r.pc)
            ob = check.Obligation(name + '/no-fault')
            ob.n_pairs = 1
            ob.status = 'ok' if st == 'unsat' else st
            run.add(ob)
            if st == 'sat':
                confirm(run, config, 'h_c01_ietf', args, model, 'ietf-end:fault', 'IETF request near the end of the keystream %s [pos=2^38-%d L=%d]' % (r.status, back, L), kind='fault')
            continue
        for code, pcx in split_ret(r, (0, 1, 2)):
            got = r.mem(r.named['data'])
            if want_ok:
                nblk = (o + L + 63) // 64
                ks = T.concat([spec.block_ietf(key, nonce, T.const(b0 + i, 32)) for i in range(nblk)])
                exp = T.bxor(data, T.extract(ks, 8 * o, 8 * L))
                pairs = [(r.ret if not T.is_const(r.ret) else T.const(code, 32), T.const(0, 32)), (got, exp)]
            else:
                exp = data
                pairs = [(T.const(code, 32), T.const(2, 32)), (got, data)]
            ob = run.equal(name + ('/ok-and-correct' if want_ok else '/error-and-untouched'), pairs, pcx, timeout_s=120)
            if ob.status == 'sat':
                confirm(run, config, 'h_c01_ietf', args, ob.model, 'ietf-end:%s' % ('wrong-ok' if want_ok else 'not-atomic'),
                        'IETF request at the end of the keystream: %s [pos=2^38-%d L=%d]' % ('wrong result' if want_ok else 'error path modified data or succeeded', back, L), exp={'data': exp})


def body(run, a):
    haves = list(range(-63, 64))
    if run.tier == 'quick':
        ns = list(range(0, 71)) + [255, 256, 257, 320]
        tasks = [('release-std', 'ietf', h, n, 'C11') for h in haves for n in ns]
        tasks += [('release-std', 'chacha20', h, n, 'C11') for h in haves for n in (0, 1, 63, 64, 65, 257)]
        tasks += [('devchk-std', 'ietf', h, n, 'C11') for h in haves for n in (0, 1, 64, 65)]
        sconfigs = ['release-std', 'devchk-std']
        shaves = (-5, 0, 9)
    else:
        ns = list(range(0, 331))
        tasks = [('release-std', 'ietf', h, n, 'C11') for h in haves for n in ns]
        tasks += [('release-std', a_, h, n, 'C11') for a_ in ('chacha20', 'xchacha8') for h in haves for n in list(range(0, 71)) + [255, 256, 257, 320]]
        tasks += [(c, 'ietf', h, n, 'C11') for c in ('devchk-std',) for h in haves for n in list(range(0, 71)) + [256, 257]]
        sconfigs = ['release-std', 'devchk-std']
        shaves = (-63, -5, 0, 9, 63)
    stasks = [(c, al, h, ty) for c in sconfigs for al in S.ALIASES for ty in S.SEEK_TYPES for h in shaves]
    configs = sorted({t[0] for t in tasks} | set(sconfigs))
    for c in configs:
        module(c, run)
    check.parallel(run, apply_chunk, [tasks[i:i + 40] for i in range(0, len(tasks), 40)])
    check.parallel(run, seek_chunk, [stasks[i:i + 12] for i in range(0, len(stasks), 12)])
    # end of stream on the real cores
    etasks = []
    for config in (['release-std'] if run.tier == 'quick' else ['release-std', 'release-nosimd', 'devchk-std']):
        for back, L in [(10, 10), (10, 11), (0, 0), (0, 1), (64, 64), (64, 65), (256, 256), (256, 257), (300, 300), (300, 301), (1, 1), (65, 1)]:
            etasks.append((config, back, L))
    check.parallel(run, endofstream, etasks)
    # canary: the iff must be sharp - a limit of 2^38 - 1 must be refuted
    mod = module('release-std', run)
    pre = S.Pre('ietf', 0)
    args = pre.args() + [Buf('data', 64, sym=True), Sc('n', 64, 64), Buf('post', 91)]
    res, ex = S.run_with_pre(mod, 'h_step_apply_ietf', args, pre)
    hit = False
    for r in res:
        if r.status == 'ret':
            for code, pcx in split_ret(r, (0, 2)):
                if code == 0:
                    P = T.add(T.shl(pre.A, 6), T.const(64, 64))
                    wrong = T.ult(T.const((1 << 38) - 1, 64), P)      # claims Ok only if P+n <= 2^38 - 1
                    st, model, dt = check.solve_neq([(wrong, T.const(0, 1))], pcx, 60, congruence=False)
                    hit = hit or st == 'sat'
    run.canary('an exhaustion limit of 2^38-1 bytes is refuted: the request ending exactly at 2^38 succeeds', hit)
    run.bounds = {'have': 'all of -63..=63', 'n': '%d values up to %d' % (len(ns), max(ns)), 'IETF consumption level A': 'symbolic over 0..=2^32',
                  '64-bit counter': 'symbolic < 2^58', 'seek position': 'symbolic over each SeekNum type (u8,u16,u32,u64,u128,usize,i32)',
                  'configs': configs, 'end-of-stream scenarios on real cores': len(etasks)}
    run.extra['invariant'] = S.INV_TEXT
    run.assumptions += ['assume-guarantee: refill_narrow / refill_wide replaced by their contract (proved in C14) in the step obligations; the end-of-stream scenarios run the real cores',
                        'induction over histories via the representation invariant (see C02)', 'LLVM back end and CPU trusted; panic=abort']


if __name__ == '__main__':
    main_wrap(body, 'C11')
