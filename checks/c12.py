#!/usr/bin/env python3-vt
# C12 - ppv-lite86 word-wise vector ops equal their scalar meaning on every backend
from common import *
import vecgrid
if __name__ == '__main__':
    main_wrap(vecgrid.body_for('C12'), 'C12')
