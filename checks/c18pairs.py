# C18 / P4 - interleaving of operations on distinct instances within one thread, decided semantically: two (three) hasher
# instances of related types are created and fed alternately in ONE symbolic execution (shared globals, thread-locals and lazy
# tables), and each digest term must equal the term of the same message hashed alone in a fresh execution. Compression functions
# are uninterpreted (as in C08; Skein runs its real core), messages symbolic.
from common import *
import c08

PAIRS = [('blake256', 'blake224'), ('blake224', 'blake256'), ('blake512', 'blake384'), ('skein512_64', 'skein512_32'), ('skein256_32', 'skein256_32'),
         ('groestl256', 'groestl224'), ('groestl224', 'groestl256'), ('groestl512', 'groestl384'), ('groestl384', 'groestl512'), ('jh256', 'jh224'), ('jh384', 'jh512')]
DIGEST = dict({k: v[:2] for k, v in c08.TYPES.items()}, skein512_32=(64, 32))


def pair_case(run, idx):
    x, y = PAIRS[idx]
    mod = module('release-std', run)
    bsx, dnx = DIGEST[x]
    bsy, dny = DIGEST[y]
    l1, c, l2 = bsx + 5, 3, 7
    m1, m2 = T.var('m1', 8 * l1), T.var('m2', 8 * l2)
    o1, o2 = T.var('o1', 4096), T.var('o2', 4096)
    t0 = time.time()
    both, exb = c08.runs(mod, 'h_pair_%s_%s' % (x, y), [Buf('m1', l1, init=m1, writable=False), Sc('l1', 64, l1), Sc('c', 64, c), Buf('m2', l2, init=m2, writable=False), Sc('l2', 64, l2),
                                                         Buf('out1', 512, init=o1), Buf('out2', 512, init=o2)])
    ax, _ = c08.runs(mod, 'h_' + x, [Buf('msg', l1, init=m1, writable=False), Sc('len', 64, l1), Buf('out', 512, init=o1)])
    ay, _ = c08.runs(mod, 'h_' + y, [Buf('msg', l2, init=m2, writable=False), Sc('len', 64, l2), Buf('out', 512, init=o2)])
    run.exec_s += time.time() - t0
    run.note_functions(execu.demangle_hint(f) for f in exb.funcs_run)
    refx = c08.by_pc([r for r in ax if r.status == 'ret'])
    refy = c08.by_pc([r for r in ay if r.status == 'ret'])
    for r in both:
        arm = arm_name(r.pc)
        name = 'P4 interleaved instances/%s+%s/arm[%s]' % (x, y, arm)
        if r.status != 'ret':
            st, model = check.pc_feasible(r.pc)
            ob = check.Obligation(name + '/returns')
            ob.n_pairs = 1
            ob.status = 'ok' if st == 'unsat' else st
            ob.detail = r.status + ' ' + r.detail
            run.add(ob)
            if st == 'sat' and not (x.startswith('groestl') and model.get('cpu', 0) & (1 << 6) == 0):
                run.violation('interleave:%s+%s:%s' % (x, y, r.status.split(':')[0]), 'interleaving a %s and a %s instance on one thread: %s %s' % (x, y, r.status, r.detail[:100]), None)
            continue
        rx = refx.get(arm) or list(refx.values())[0]
        ry = refy.get(arm) or list(refy.values())[0]
        pairs = [(r.mem(r.named['out1'], 0, dnx), rx.mem(rx.named['out'], 0, dnx)),
                 (r.mem(r.named['out2'], 0, dny), ry.mem(ry.named['out'], 0, dny)),
                 (r.mem(r.named['out2'], 256, dny), ry.mem(ry.named['out'], 0, dny))]
        ob = run.equal(name, pairs, r.pc, timeout_s=60)
        if ob.status == 'sat':
            # native confirmation: the harness entry against the two one-shot entries
            import subprocess
            prof, feats = profile_of('release-std')
            b = entry.replay_bin(prof, feats)
            cpu = entry.cpu_mask(ob.model)
            env = dict(os.environ, VERIF_CPU=str(cpu))
            m1b = (ob.model.get('m1', 0)).to_bytes(l1, 'little')
            m2b = (ob.model.get('m2', 0)).to_bytes(l2, 'little')
            z = '00' * 512

            def nat(fn, a):
                p = subprocess.run([b, fn] + a, stdout=subprocess.PIPE, stderr=subprocess.PIPE, text=True, env=env)
                return [l for l in p.stdout.split('\n') if l and not l.startswith('ret=')], p.returncode
            pr, rc = nat('h_pair_%s_%s' % (x, y), [m1b.hex(), '%x' % l1, '%x' % c, m2b.hex(), '%x' % l2, z, z])
            ox, _ = nat('h_' + x, [m1b.hex(), '%x' % l1, z])
            oy, _ = nat('h_' + y, [m2b.hex(), '%x' % l2, z])
            bad = rc != 0
            if not bad:
                outs = [l for l in pr if len(l) >= 1024]
                sx = [l for l in ox if len(l) >= 1024][-1]
                sy = [l for l in oy if len(l) >= 1024][-1]
                bad = outs[-2][:2 * dnx] != sx[:2 * dnx] or outs[-1][:2 * dny] != sy[:2 * dny] or outs[-1][512:512 + 2 * dny] != sy[:2 * dny]
            what = 'a %s and a %s instance used alternately on one thread do not give the digests they give alone' % (x, y)
            if bad:
                run.violation('interleave:%s+%s' % (x, y), what, run.write_replay('interleave' + x + y, {'pair': [x, y], 'm1': m1b.hex(), 'm2': m2b.hex(), 'cut': c, 'cpu': cpu}))
            else:
                run.inconclusive.append('counterexample not reproduced natively: ' + what)
