# Inductive step for the buffered ChaCha stream-cipher state machine (shared by C02 and C11).
#
# Abstract position  P = 64*ctr - have   (ctr = block counter in the state = next block to generate;
#                                         have > 0: unread tail of block ctr-1 is buffered; have < 0: offset into block ctr)
# Representation invariant Inv (printed in the evidence):
#   have in [-63, 63];  have > 0  =>  out[64-have..] = KS(ctr-1)[64-have..]
#   64-bit-counter types: len = 0 -64 ctr;  ctr = 0 => fresh;  have > 0 => ctr >= 1;  ctr < 2^58 (positions expressible in 64 bits)
#   IETF: fresh = false; len = 2^32 - A where A in [0, 2^32] is the number of blocks consumed, counter word 0 = A mod 2^32,
#         have > 0 => A >= 1; nonce words (incl. state word 1) equal the constructor's nonce (ghost copy)
# The keystream cores refill_narrow / refill_wide are SUMMARISED: output block = uninterpreted function of the
# (key, counter, stream id / nonce) words and the round count, and the 64-bit counter (words 0,1 of d) advances by 1 / 4.
# That is exactly the contract C14 proves for the real functions on every backend arm.
import re
from common import *

INV_TEXT = __doc__ if __doc__ else 'see chacha_step.py header'

ALIASES = {'chacha20': ('djb', 10), 'xchacha8': ('djb', 4), 'ietf': ('ietf', 10)}


def ks_block(b, c, d, dr):
    return T.uf('ks', 512, (b, c, d, T.const(dr, 32)))


def refill_summary(nblocks):
    def f(ex, name, args):
        st, dr, out = args
        o, off = ex.access(st, 48, 16, True)
        state = ex.read_bytes(o, off, 48)
        b, c, d = T.extract(state, 0, 128), T.extract(state, 128, 128), T.extract(state, 256, 128)
        ctr, sid = T.extract(d, 0, 64), T.extract(d, 64, 64)
        oo, ooff = ex.access(out, 64 * nblocks, 1, True)
        drv = T.cval(dr)
        for i in range(nblocks):
            di = T.concat([T.add(ctr, T.const(i, 64)), sid])
            ex.write_bits(oo, ooff + 64 * i, ks_block(b, c, di, drv))
        ex.write_bits(o, off + 32, T.add(ctr, T.const(nblocks, 64)))
        ex.stats['summaries'] = ex.stats.get('summaries', 0) + 1
        return None
    return f


def summaries():
    return [(re.compile(r'guts11refill_wide17h[0-9a-f]{16}E$'), refill_summary(4)),
            (re.compile(r'guts13refill_narrow17h[0-9a-f]{16}E$'), refill_summary(1))]


class Pre:
    """symbolic pre-state satisfying Inv, for a concrete `have`"""

    def __init__(self, alias, have):
        kind, dr = ALIASES[alias]
        self.alias, self.kind, self.dr, self.have = alias, kind, dr, have
        self.key = T.var('key', 256)
        self.b, self.c = T.extract(self.key, 0, 128), T.extract(self.key, 128, 128)
        self.p1 = T.var('sid', 64)
        self.assume = []
        if kind == 'djb':
            self.ctr = T.zext(T.var('ctr', 58), 64)
            self.p0 = self.ctr
            self.len = T.neg(self.ctr)
            self.fresh = T.var('fresh', 1)
            # ctr = 0 => fresh
            self.assume.append((T.bor(T.ne(self.ctr, T.const(0, 64)), self.fresh), True))
            if have > 0:
                self.assume.append((T.ne(self.ctr, T.const(0, 64)), True))
            self.A = self.ctr
        else:
            self.ctr32 = T.var('ctr', 32)
            self.n0 = T.var('n0', 32)
            self.p0 = T.concat([self.ctr32, self.n0])
            self.ltop = T.var('ltop', 1)      # len = 2^32 exactly (nothing consumed yet)
            self.lz = T.var('lz', 1)          # exhausted: len = 0 although counter word is 0
            # len = (2^32 - ctr32) in general; ctr32 = 0: len is 2^32 (ltop) or 0 (exhausted)
            self.len = T.concat([T.neg(self.ctr32), self.ltop, T.const(0, 31)])
            z = T.eq(self.ctr32, T.const(0, 32))
            # ltop <=> (ctr32 == 0 and not exhausted)
            self.assume.append((T.eq(self.ltop, T.and1(z, T.bxor(self.lz, T.const(1, 1)))), True))
            self.assume.append((T.bor(z, T.bxor(self.lz, T.const(1, 1))), True))     # lz => ctr32 == 0
            if have > 0:
                self.assume.append((self.ltop, False))
            if have < 0:
                self.assume.append((self.lz, False))      # P <= 2^38: a pending mid-block position is never at the very end
            self.fresh = T.const(0, 1)
            # blocks consumed A (0..2^32) as a 64-bit number
            self.A = T.concat([self.ctr32, self.lz, T.const(0, 31)])
        self.out = self._out()

    def dword(self, k):
        """state word vector d for block (ctr + k)"""
        if self.kind == 'djb':
            return T.concat([T.add(self.ctr, T.const(k, 64)), self.p1])
        return T.concat([T.add(self.ctr32, T.const(k, 32)), self.n0, self.p1])

    def ks(self, k):
        return ks_block(self.b, self.c, self.dword(k), self.dr)

    def _out(self):
        h = self.have
        if h > 0:
            return T.concat([T.var('outlo', 8 * (64 - h)), T.extract(self.ks(-1), 8 * (64 - h), 8 * h)])
        return T.var('out', 512)

    def args(self):
        return [Buf('key', 32, init=self.key, writable=False), Sc('p0', 64, self.p0), Sc('p1', 64, self.p1),
                Buf('out_in', 64, init=self.out, writable=False), Sc('have', 8, self.have & 0xff), Sc('len', 64, self.len),
                Sc('fresh', 8, T.zext(self.fresh, 8))]


def post_fields(r):
    m = r.mem(r.named['post'])
    f = {}
    f['p0'] = T.extract(m, 0, 64)
    f['p1'] = T.extract(m, 64, 64)
    f['out'] = T.extract(m, 128, 512)
    f['have'] = T.extract(m, 640, 8)
    f['len'] = T.extract(m, 648, 64)
    f['fresh'] = T.extract(m, 712, 8)
    f['keyok'] = T.extract(m, 720, 8)
    return f


def run_with_pre(mod, fname, args, pre):
    ex = entry.default_exec(mod)
    ex.summary_res.extend(summaries())

    def setpre(e):
        for c, v in pre.assume:
            e.assume(c, v)
    res, ex = entry.run(mod, fname, args, ex=ex, pre=setpre)
    return res, ex


def nofault(run, r, name, config, fname, args, keyfn):
    """a panicking / faulting path must be infeasible under Inv"""
    st, model = check.pc_feasible(r.pc)
    ob = check.Obligation(name + '/no-fault')
    ob.n_pairs = 1
    ob.status = 'ok' if st == 'unsat' else st
    ob.detail = r.status + ' ' + r.detail
    run.add(ob)
    if st == 'sat':
        key, what = keyfn(r, model)
        confirm(run, config, fname, args, model, key, what, kind='fault')


def inv_post(pre, f, delta, have2, consumed_known=True):
    """pairs expressing Inv' and P' = P + n for concrete have' = have2 and block delta"""
    pairs = []
    if pre.kind == 'djb':
        pairs.append((f['p0'], T.add(pre.ctr, T.const(delta, 64))))
    else:
        pairs.append((f['p0'], T.concat([T.add(pre.ctr32, T.const(delta, 32)), pre.n0])))   # nonce word untouched (ghost)
    pairs.append((f['p1'], pre.p1))
    pairs.append((f['keyok'], T.const(1, 8)))
    pairs.append((f['len'], T.sub(pre.len, T.const(delta, 64))))
    if pre.kind == 'ietf':
        pairs.append((f['fresh'], T.const(0, 8)))
    elif delta == 0:
        pairs.append((f['fresh'], T.zext(pre.fresh, 8)))
    if have2 > 0:
        pairs.append((T.extract(f['out'], 8 * (64 - have2), 8 * have2), T.extract(pre.ks(delta - 1), 8 * (64 - have2), 8 * have2)))
    return pairs


def expected_data(pre, n):
    h = pre.have
    data = T.var('data', 8 * n)
    if n == 0:
        return ()
    parts = []
    for i in range(n):
        k, j = divmod(i - h, 64)
        parts.append(T.extract(pre.ks(k), 8 * j, 8))
    # merge
    return T.bxor(data, T.concat(parts))


def limit_cond(pre, n):
    """IETF: P + n > 2^38   (P = 64*A - have)"""
    P = T.add(T.shl(pre.A, 6), T.const(-pre.have, 64))
    return T.ult(T.const(1 << 38, 64), T.add(P, T.const(n, 64)))


# ---------------------------------------------------------------------------------------------------- apply
def apply_case(run, task):
    config, alias, have, n = task[:4]
    which = task[4] if len(task) > 4 else 'C02'
    mod = module(config, run)
    pre = Pre(alias, have)
    fname = 'h_step_apply_' + alias
    args = pre.args() + [Buf('data', n, sym=True), Sc('n', 64, n), Buf('post', 91)]
    t0 = time.time()
    res, ex = run_with_pre(mod, fname, args, pre)
    run.exec_s += time.time() - t0
    run.note_functions(execu.demangle_hint(f) for f in ex.funcs_run)
    run.extra['summarised_calls'] = run.extra.get('summarised_calls', 0) + ex.stats.get('summaries', 0)
    data = T.var('data', 8 * n)
    exp = expected_data(pre, n)
    base = 'apply/%s/%s/have=%d/n=%d' % (alias, config, have, n)
    for r in res:
        if r.status != 'ret':
            def keyfn(r, model):
                if 'overflow' in r.detail and have < 0 and pre.kind == 'djb':
                    return ('apply:lazy-fill-len-underflow-panic',
                            'try_apply_keystream panics (%s) after a mid-block seek into block 0 of a 64-bit-counter cipher [%s have=%d len=0]' % (r.detail[:90], config, have))
                return ('apply:%s:%s' % (alias, r.status), 'try_apply_keystream %s: %s [%s have=%d n=%d]' % (r.status, r.detail[:100], config, have, n))
            nofault(run, r, base, config, fname, args, keyfn)
            continue
        for code, pcx in split_ret(r, (0, 2)):
            f = post_fields(r)
            got = r.mem(r.named['data']) if n else ()
            if not T.is_const(f['have']):
                run.inconclusive.append(base + ': symbolic have after apply')
                continue
            have2 = T.cval(f['have'])
            if have2 >= 128:
                have2 -= 256
            name = base + '/ret=%d' % code
            if code == 0:
                # Ok: every byte XORed with the keystream byte of its absolute position; P' = P + n; Inv'
                tot = n - have + have2
                if not (-63 <= have2 <= 63) or tot % 64:
                    ob = check.Obligation(name + '/have-in-range')
                    ob.status = 'sat'
                    run.add(ob)
                    confirm(run, config, fname, args, dict(check.pc_feasible(pcx)[1] or {}), 'apply:%s:bad-have' % alias,
                            'after apply have=%d is inconsistent with P+n [have=%d n=%d]' % (have2, have, n), exp={'data': exp})
                    continue
                delta = tot // 64
                pairs = ([(got, exp)] if n else []) + inv_post(pre, f, delta, have2)
                ob = run.equal(name, pairs, pcx)
                if ob.status == 'sat':
                    report_apply(run, config, fname, args, ob.model, pre, r, pairs, alias, have, n, exp, 'ok')
                if pre.kind == 'ietf':
                    lc = limit_cond(pre, n)
                    ob2 = run.equal(name + '/ok-only-within-2^38', [(lc, T.const(0, 1))], pcx)
                    if ob2.status == 'sat':
                        confirm(run, config, fname, args, ob2.model, 'apply:ietf:ok-past-limit', 'IETF apply succeeds past 2^38 bytes [have=%d n=%d]' % (have, n), kind='ret', exp_ret=2)
            elif code == 2:
                # Err: data untouched, P unchanged, Inv' (the lazy fill may have happened: same P, different representation)
                tot = -have + have2
                if not (-63 <= have2 <= 63) or tot % 64:
                    ob = check.Obligation(name + '/have-in-range')
                    ob.status = 'sat'
                    run.add(ob)
                    confirm(run, config, fname, args, dict(check.pc_feasible(pcx)[1] or {}), 'apply:%s:bad-have-err' % alias,
                            'after a failed apply have=%d is inconsistent with P [have=%d n=%d]' % (have2, have, n), exp={'data': data})
                    continue
                delta = tot // 64
                pairs = ([(got, data)] if n else []) + inv_post(pre, f, delta, have2)
                ob = run.equal(name + '/atomic', pairs, pcx)
                if ob.status == 'sat':
                    report_apply(run, config, fname, args, ob.model, pre, r, pairs, alias, have, n, data, 'err')
                if pre.kind == 'ietf':
                    lc = limit_cond(pre, n)
                    ob2 = run.equal(name + '/err-only-past-2^38', [(lc, T.const(1, 1))], pcx)
                    if ob2.status == 'sat':
                        confirm(run, config, fname, args, ob2.model, 'apply:ietf:err-before-limit', 'IETF apply fails although P+n <= 2^38 [have=%d n=%d]' % (have, n), kind='ret', exp_ret=0)
                else:
                    st, model = check.pc_feasible(pcx)
                    ob2 = check.Obligation(name + '/64-bit-never-exhausted')
                    ob2.n_pairs = 1
                    ob2.status = 'ok' if st == 'unsat' else st
                    run.add(ob2)
                    if st == 'sat':
                        confirm(run, config, fname, args, model, 'apply:%s:spurious-exhaustion' % alias, '64-bit-counter cipher reports exhaustion [have=%d n=%d]' % (have, n), kind='ret', exp_ret=0)
            else:
                ob = check.Obligation(name + '/unexpected-return')
                ob.status = 'unknown'
                run.add(ob)


def report_apply(run, config, fname, args, model, pre, r, pairs, alias, have, n, expdata, mode):
    """classify which clause fails under the model, for a role-based key, then replay natively"""
    ev = T.Evaluator(model)
    labels = (['data'] if n else []) + ['counter/nonce-word', 'stream-id', 'key', 'len'] + (['fresh'] if (pre.kind == 'ietf' or True) else [])
    bad = []
    for i, (g, e) in enumerate(pairs):
        if ev.val(g) != ev.val(e):
            bad.append(i)
    names = []
    idx = 0
    lab = (['data'] if n else []) + ['p0', 'p1', 'key', 'len']
    for i in bad:
        names.append(lab[i] if i < len(lab) else 'state%d' % i)
    what = 'try_apply_keystream %s path: %s wrong [%s have=%d n=%d %s]' % (mode, ','.join(names) or '?', alias, have, n, config)
    key = 'apply:%s:%s:%s' % (alias, mode, '+'.join(sorted(set(names))) or 'state')
    if pre.kind == 'ietf' and names and set(names) <= {'p0'}:
        # is it exactly the carry out of the 32-bit counter into nonce word 0 (state word 13)?
        fm = post_fields(r)
        got_p0 = ev.val(fm['p0'])
        c32, n0 = ev.val(pre.ctr32), ev.val(pre.n0)
        if (got_p0 & 0xffffffff) == 0 and (got_p0 >> 32) == ((n0 + 1) & 0xffffffff) and got_p0 != (n0 << 32) and c32 != 0:
            key = 'apply:ietf:counter-carry-into-nonce'
            what = 'IETF: producing the last block (32-bit counter reaches 2^32) carries into nonce word 0 (state word 13), so output after seeking back comes from a different nonce'
    # native confirmation: compare the post-state bytes against the expected post-state under the model
    post_exp = None
    confirm_post(run, config, fname, args, model, key, what, r, pairs, expdata, n)


def ks_real(b, c, d, dr):
    """the real ChaCha block (python ints) standing in for the uninterpreted keystream during native replay"""
    M = 0xffffffff
    w = [0x61707865, 0x3320646e, 0x79622d32, 0x6b206574] + [(b >> (32 * i)) & M for i in range(4)] + \
        [(c >> (32 * i)) & M for i in range(4)] + [(d >> (32 * i)) & M for i in range(4)]
    s = list(w)

    def rotl(x, k):
        return ((x << k) | (x >> (32 - k))) & M

    def qr(a, b_, c_, d_):
        s[a] = (s[a] + s[b_]) & M; s[d_] = rotl(s[d_] ^ s[a], 16)
        s[c_] = (s[c_] + s[d_]) & M; s[b_] = rotl(s[b_] ^ s[c_], 12)
        s[a] = (s[a] + s[b_]) & M; s[d_] = rotl(s[d_] ^ s[a], 8)
        s[c_] = (s[c_] + s[d_]) & M; s[b_] = rotl(s[b_] ^ s[c_], 7)
    for _ in range(dr):
        qr(0, 4, 8, 12); qr(1, 5, 9, 13); qr(2, 6, 10, 14); qr(3, 7, 11, 15)
        qr(0, 5, 10, 15); qr(1, 6, 11, 12); qr(2, 7, 8, 13); qr(3, 4, 9, 14)
    r = 0
    for i in range(16):
        r |= ((s[i] + w[i]) & M) << (32 * i)
    return r


UFS = {'ks': ks_real}


_CONFIRMED = {}


def confirm_post(run, config, fname, args, model, key, what, r, pairs, expdata, n):
    """native confirmation of a step counterexample. The uninterpreted keystream of the model is instantiated with the
    real block function (the harness runs the real cores), and the native post-state / data are compared with the
    expectation evaluated under the same instantiation."""
    prof, feats = profile_of(config)
    if (key, config) in _CONFIRMED:
        # the same finding (same role-based key) was already replayed natively in this process: count it, do not replay again
        run.violation(key, what, _CONFIRMED[(key, config)])
        return
    rp = entry.replay(fname, args, model, prof, feats, ufs=UFS)
    payload = {'entry': fname, 'config': config, 'profile': prof, 'features': list(feats), 'cpu': entry.cpu_mask(model),
               'args': entry.arg_hex(args, model, UFS), 'native': rp, 'kind': 'state', 'what': what}
    if rp['status'] != 'ok':
        run.violation(key, what + ' (native: %s)' % rp['status'], run.write_replay(key + what, payload))
        return
    ev = T.Evaluator(model, UFS)
    outs = rp['outputs']
    post = bytes.fromhex(outs[-1])
    native = {'p0': int.from_bytes(post[0:8], 'little'), 'p1': int.from_bytes(post[8:16], 'little'), 'out': int.from_bytes(post[16:80], 'little'),
              'have': post[80], 'len': int.from_bytes(post[81:89], 'little'), 'fresh': post[89], 'keyok': post[90]}
    if n:
        native['data'] = int.from_bytes(bytes.fromhex(outs[0]), 'little')
    fm = post_fields(r)
    # which expectation does the native run violate?
    got_terms = dict(fm)
    if n:
        got_terms['data'] = r.mem(r.named['data'])
    bad = {}
    for g, e in pairs:
        # find which field (or slice of out) this pair is about by matching the got-term
        for k, t in got_terms.items():
            if g == t:
                if native[k] != ev.val(e):
                    bad[k] = (native[k], ev.val(e))
            elif k == 'out' and T.width(g) < 512 and T.width(g) % 8 == 0 and g == T.extract(t, 512 - T.width(g), T.width(g)):
                nv = native['out'] >> (512 - T.width(g))
                if nv != ev.val(e):
                    bad['out-tail'] = (nv, ev.val(e))
    payload['native_vs_expected'] = {k: [hex(a), hex(b)] for k, (a, b) in bad.items()}
    if bad:
        path = run.write_replay(key + what, payload)
        _CONFIRMED[(key, config)] = path
        run.violation(key, what, path)
    else:
        run.inconclusive.append('step counterexample not reproduced natively: ' + what)


# ---------------------------------------------------------------------------------------------------- seek
SEEK_TYPES = {'u8': 8, 'u16': 16, 'u32': 32, 'u64': 64, 'usize': 64, 'i32': 32, 'u128': 128}


def seek_case(run, task):
    config, alias, have, ty = task[:4]
    mod = module(config, run)
    pre = Pre(alias, have)
    fname = 'h_step_seek_%s_%s' % (ty, alias)
    w = SEEK_TYPES[ty]
    pv = T.var('pos', w)
    if ty == 'u128':
        pargs = [Sc('pos_lo', 64, T.extract(pv, 0, 64)), Sc('pos_hi', 64, T.extract(pv, 64, 64))]
    else:
        pargs = [Sc('pos', w, pv)]
    args = pre.args() + pargs + [Buf('post', 91)]
    t0 = time.time()
    res, ex = run_with_pre(mod, fname, args, pre)
    run.exec_s += time.time() - t0
    run.note_functions(execu.demangle_hint(f) for f in ex.funcs_run)
    # mathematical value of the argument and range predicate
    if ty == 'i32':
        neg = T.bit(pv, 31)
        p64 = T.sext(pv, 64)
        inrange = T.bxor(neg, T.const(1, 1))
    elif ty == 'u128':
        p64 = T.extract(pv, 0, 64)
        inrange = T.eqz(T.extract(pv, 64, 64))
    else:
        p64 = T.zext(pv, 64)
        inrange = T.const(1, 1)
    if pre.kind == 'ietf':
        inrange = T.and1(inrange, T.ule(p64, T.const(1 << 38, 64)))
    blk = T.lshr(p64, 6)
    off = T.extract(p64, 0, 6)
    base = 'seek/%s/%s/%s/have=%d' % (alias, ty, config, have)
    for r in res:
        arm = arm_name(r.pc)
        if r.status != 'ret':
            def keyfn(r, model):
                pm = model.get('pos', 0)
                if ty == 'i32' and pm >> 31:
                    pm = -1
                if pre.kind == 'ietf' and r.status.startswith('panic') and pm > (1 << 38):
                    return ('seek:ietf:out-of-range-panics', 'IETF try_seek beyond 2^38 bytes panics (assert in seek32) instead of returning an error [%s pos=%#x]' % (ty, model.get('pos', 0)))
                return ('seek:%s:%s' % (alias, r.status), 'try_seek::<%s> %s: %s' % (ty, r.status, r.detail[:100]))
            nofault(run, r, base + '/arm[%s]' % arm, config, fname, args, keyfn)
            continue
        for code, pcx in split_ret(r, (0, 1)):
            f = post_fields(r)
            name = base + '/arm[%s]/ret=%d' % (arm, code)
            if code == 0:
                ob0 = run.equal(name + '/ok-only-in-range', [(inrange, T.const(1, 1))], pcx)
                if ob0.status == 'sat':
                    confirm(run, config, fname, args, ob0.model, 'seek:%s:accepts-out-of-range' % alias, 'try_seek::<%s> accepts an out-of-range position' % ty, kind='ret', exp_ret=1)
                pairs = []
                if pre.kind == 'djb':
                    pairs.append((f['p0'], blk))
                    pairs.append((f['len'], T.neg(blk)))
                    pairs.append((f['fresh'], T.zext(T.eqz(blk), 8)))
                else:
                    pairs.append((f['p0'], T.concat([T.extract(blk, 0, 32), pre.n0])))
                    pairs.append((f['len'], T.sub(T.const(1 << 32, 64), blk)))
                    pairs.append((f['fresh'], T.const(0, 8)))
                pairs.append((f['p1'], pre.p1))
                pairs.append((f['keyok'], T.const(1, 8)))
                pairs.append((f['have'], T.neg(T.zext(off, 8))))
                ob = run.equal(name + '/P=pos', pairs, pcx)
                if ob.status == 'sat':
                    ev = T.Evaluator(ob.model)
                    lab = ['counter', 'len', 'fresh', 'stream-id', 'key', 'have']
                    badl = [l for (g, e), l in zip(pairs, lab) if ev.val(g) != ev.val(e)]
                    key = 'seek:%s:wrong-%s' % (alias, '+'.join(badl))
                    what = 'try_seek::<%s>(%#x) leaves wrong %s [%s %s have=%d]' % (ty, ob.model.get('pos', 0), ','.join(badl), alias, config, have)
                    confirm_seek(run, config, fname, args, ob.model, key, what, r, pairs, lab)
            elif code == 1:
                ob0 = run.equal(name + '/err-only-out-of-range', [(inrange, T.const(0, 1))], pcx)
                if ob0.status == 'sat':
                    confirm(run, config, fname, args, ob0.model, 'seek:%s:rejects-in-range' % alias, 'try_seek::<%s> rejects an in-range position %#x' % (ty, ob0.model.get('pos', 0)), kind='ret', exp_ret=0)
            else:
                ob = check.Obligation(name + '/unexpected-return')
                ob.status = 'unknown'
                run.add(ob)


def confirm_seek(run, config, fname, args, model, key, what, r, pairs, lab):
    prof, feats = profile_of(config)
    rp = entry.replay(fname, args, model, prof, feats)
    payload = {'entry': fname, 'config': config, 'profile': prof, 'features': list(feats), 'cpu': entry.cpu_mask(model),
               'args': entry.arg_hex(args, model), 'native': rp, 'kind': 'state', 'what': what}
    if rp['status'] != 'ok':
        run.violation(key, what + ' (native: %s)' % rp['status'], run.write_replay(key + what, payload))
        return
    ev = T.Evaluator(model)
    post = bytes.fromhex(rp['outputs'][-1])
    nat = {'counter': int.from_bytes(post[0:8], 'little'), 'stream-id': int.from_bytes(post[8:16], 'little'), 'have': post[80],
           'len': int.from_bytes(post[81:89], 'little'), 'fresh': post[89], 'key': post[90]}
    bad = {l: (nat[l], ev.val(e)) for (g, e), l in zip(pairs, lab) if nat[l] != ev.val(e)}
    payload['native_vs_expected'] = {k: [hex(a), hex(b)] for k, (a, b) in bad.items()}
    if bad:
        run.violation(key, what, run.write_replay(key + what, payload))
    else:
        run.inconclusive.append('seek counterexample not reproduced natively: ' + what)


# ---------------------------------------------------------------------------------------------------- current_pos
def pos_case(run, task):
    config, alias, have = task[:3]
    mod = module(config, run)
    pre = Pre(alias, have)
    fname = 'h_step_pos_' + alias
    args = pre.args() + [Buf('pos_out', 8)]
    res, ex = run_with_pre(mod, fname, args, pre)
    run.note_functions(execu.demangle_hint(f) for f in ex.funcs_run)
    base = 'current_pos/%s/%s/have=%d' % (alias, config, have)
    P = T.add(T.shl(pre.A, 6), T.const(-have, 64))
    for r in res:
        if r.status != 'ret':
            def keyfn(r, model):
                return ('current_pos:unimplemented', 'try_current_pos is unimplemented!(): current_pos() always panics')
            nofault(run, r, base, config, fname, args, keyfn)
            continue
        for code, pcx in split_ret(r, (0, 1)):
            if code == 0:
                ob = run.equal(base + '/equals-P', [(r.mem(r.named['pos_out']), P)], pcx)
                if ob.status == 'sat':
                    confirm(run, config, fname, args, ob.model, 'current_pos:wrong', 'try_current_pos differs from the absolute position', exp={'pos_out': P})


# ---------------------------------------------------------------------------------------------------- new
def new_case(run, task):
    config, alias = task[:2]
    mod = module(config, run)
    kind, dr = ALIASES[alias]
    nb = {'chacha20': 8, 'ietf': 12, 'xchacha8': 24}[alias]
    fname = 'h_new_' + alias
    args = [Buf('key', 32, sym=True, writable=False), Buf('nonce', nb, sym=True, writable=False), Buf('post', 91)]
    res, ex = entry.run(mod, fname, args)
    run.note_functions(execu.demangle_hint(f) for f in ex.funcs_run)
    nonce = T.var('nonce', 8 * nb)
    for r in res:
        name = 'new/%s/%s/arm[%s]' % (alias, config, arm_name(r.pc))
        if r.status != 'ret':
            nofault(run, r, name, config, fname, args, lambda r, m: ('new:%s:%s' % (alias, r.status), 'new() %s %s' % (r.status, r.detail[:80])))
            continue
        f = post_fields(r)
        pairs = [(f['have'], T.const(0, 8))]
        if kind == 'ietf':
            pairs += [(f['p0'], T.concat([T.const(0, 32), T.extract(nonce, 0, 32)])), (f['p1'], T.extract(nonce, 32, 64)),
                      (f['len'], T.const(1 << 32, 64)), (f['fresh'], T.const(0, 8)), (f['keyok'], T.const(1, 8))]
        else:
            pairs += [(f['p0'], T.const(0, 64)), (f['p1'], T.extract(nonce, 8 * nb - 64, 64)), (f['len'], T.const(0, 64)), (f['fresh'], T.const(1, 8))]
            if alias != 'xchacha8':
                pairs.append((f['keyok'], T.const(1, 8)))
        ob = run.equal(name + '/Inv-and-P=0', pairs, r.pc)
        if ob.status == 'sat':
            confirm(run, config, fname, args, ob.model, 'new:%s:bad-initial-state' % alias, 'state after new() violates the invariant / P != 0', kind='fault')
