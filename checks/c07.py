#!/usr/bin/env python3-vt
# C07 - Groestl-224/256/384/512 digests conform to the Groestl specification for every message.
# Full digests with a symbolic message (every implementation module selected by the run-time feature test: aes / ssse3 / sse2),
# and one step update+finalize from an ARBITRARY chaining value and block counter (hook). SubBytes is an uninterpreted byte
# function on both sides (the AESENCLAST model = ShiftRows, SubBytes(sbox8), AddRoundKey), so the equalities hold for any S-box.
from common import *
from specs import groestl as spec


def lens_for(variant, tier):
    bs = spec.VARIANTS[variant][0] // 8
    if tier == 'quick':
        return sorted({0, 1, bs - 9, bs - 8, bs - 1, bs, bs + 1})
    return list(range(0, 2 * bs + 2))


def arm3(pc):
    return arm_name(pc).replace('bit25', 'aes') or 'single'


def digest_case(run, task):
    config, variant, L = task
    ell, dn = spec.VARIANTS[variant]
    mod = module(config, run)
    fname = 'h_groestl%d' % variant
    msg = T.var('msg', 8 * L)
    out0 = T.var('out0', 4096)
    args = [Buf('msg', L, init=msg, writable=False), Sc('len', 64, L), Buf('out', 512, init=out0)]
    t0 = time.time()
    res, ex = entry.run(mod, fname, args)
    run.exec_s += time.time() - t0
    run.note_functions(execu.demangle_hint(f) for f in ex.funcs_run)

    def specf():
        return T.concat([spec.digest(msg, L, variant), T.extract(out0, 8 * dn, 4096 - 8 * dn)])
    for r in res:
        name = 'groestl%d/digest/%s/L=%d/arm[%s]' % (variant, config, L, arm3(r.pc))
        if r.status != 'ret':
            st, model = check.pc_feasible(r.pc)
            ob = check.Obligation(name + '/returns')
            ob.n_pairs = 1
            ob.status = 'ok' if st == 'unsat' else st
            ob.detail = r.status + ' ' + r.detail
            run.add(ob)
            if st == 'sat':
                if 'requires at least sse2' in r.detail or model.get('cpu', 0) & (1 << 6) == 0:
                    # the "not even SSE2" arm: SSE2 is part of the x86-64 baseline, no such CPU exists (whitelisted by role)
                    ob.status = 'ok'
                    continue
                confirm(run, config, fname, args, model, 'groestl%d:%s' % (variant, r.status.split(':')[0]), 'Groestl%d %s (%s) [L=%d]' % (variant, r.status, r.detail[:80], L), kind='fault')
            continue
        got = r.mem(r.named['out'])
        ob = run.equal_spec(name, got, specf, r.pc, timeout_s=120, split=64, impl_fn=lambda: (lambda r2: r2.mem(r2.named['out']))(entry.rerun(ex, r)))
        if ob.status == 'sat':
            confirm(run, config, fname, args, ob.model, 'groestl%d:digest:%s' % (variant, arm3(r.pc)), 'Groestl%d digest differs from the specification [L=%d arm %s]' % (variant, L, arm3(r.pc)), exp={'out': specf()})


def step_case(run, task):
    config, variant, p, n = task
    ell, dn = spec.VARIANTS[variant]
    bs = ell // 8
    mod = module(config, run)
    fname = 'h_groestl%d_step' % variant
    cv = T.var('cv', ell)
    cnt = T.var('cnt', 64)
    pre, msg = T.var('pre', 8 * p), T.var('msg', 8 * n)
    out0 = T.var('out0', 4096)
    args = [Buf('cv', bs, init=cv, writable=False), Sc('counter', 64, cnt), Buf('prefill', p, init=pre, writable=False), Sc('p', 64, p),
            Buf('msg', n, init=msg, writable=False), Sc('len', 64, n), Buf('out', 512, init=out0)]
    t0 = time.time()
    # format limit: 2^64 blocks
    res, ex = entry.run(mod, fname, args, pre=lambda e: e.assume(T.ult(cnt, T.const((1 << 64) - 16, 64)), True))
    run.exec_s += time.time() - t0
    run.note_functions(execu.demangle_hint(f) for f in ex.funcs_run)
    allm = T.concat([pre, msg])

    def specf():
        d = spec.digest(allm, p + n, variant, h0=spec.bytes_of(cv), blocks_before=cnt)
        return T.concat([d, T.extract(out0, 8 * dn, 4096 - 8 * dn)])
    for r in res:
        name = 'groestl%d/step/%s/p=%d/n=%d/arm[%s]' % (variant, config, p, n, arm3(r.pc))
        if r.status != 'ret':
            st, model = check.pc_feasible(r.pc)
            ob = check.Obligation(name + '/returns')
            ob.n_pairs = 1
            ob.status = 'ok' if st == 'unsat' else st
            ob.detail = r.status + ' ' + r.detail
            run.add(ob)
            if st == 'sat':
                if model.get('cpu', 0) & (1 << 6) == 0:
                    ob.status = 'ok'
                    continue
                key = 'groestl%d:block-counter-overflow-panic' % variant if 'overflow' in r.detail else 'groestl%d:step:%s' % (variant, r.status.split(':')[0])
                confirm(run, config, fname, args, model, key, 'Groestl%d update/finalize %s (%s) [counter=%#x]' % (variant, r.status, r.detail[:80], model.get('cnt', 0)), kind='fault')
            continue
        if config.startswith('devchk'):
            continue
        got = r.mem(r.named['out'])
        ob = run.equal_spec(name, got, specf, r.pc, timeout_s=120, split=64, impl_fn=lambda: (lambda r2: r2.mem(r2.named['out']))(entry.rerun(ex, r)))
        if ob.status == 'sat':
            confirm(run, config, fname, args, ob.model, 'groestl%d:step:%s' % (variant, arm3(r.pc)),
                    'Groestl%d from an arbitrary state: digest differs from the specification [p=%d n=%d counter=%#x]' % (variant, p, n, ob.model.get('cnt', 0)), exp={'out': specf()})


def body(run, a):
    assert spec.selftest()
    tasks = [('release-std', v, L) for v in (224, 256, 384, 512) for L in lens_for(v, run.tier)]
    stasks = []
    for v in (224, 256, 384, 512):
        bs = spec.VARIANTS[v][0] // 8
        ps = range(bs) if run.tier == 'thorough' else [0, 1, bs - 9, bs - 8, bs - 1]
        for p in ps:
            for n in ((0, 1, bs - p, bs + 1) if run.tier == 'thorough' else (0, 1)):
                stasks.append(('release-std', v, p, n))
        if run.tier == 'quick':
            # a buffered partial block followed by a slice of a block or more (the block count must follow the blocks actually compressed)
            stasks += [('release-std', v, bs - 1, bs + 1), ('release-std', v, 1, bs)]
        for p in (0, bs - 8):
            stasks.append(('devchk-std', v, p, 1))
    for c in ['release-std', 'devchk-std']:
        module(c, run)
    check.parallel(run, digest_case, tasks)
    check.parallel(run, step_case, stasks)
    # canary: wrong ShiftBytes vector for Q must be distinguished (with the S-box uninterpreted, any byte function is allowed:
    # evaluate with the real AES table)
    mod = module('release-std', run)
    L = 3
    msg = T.var('msg', 8 * L)
    args = [Buf('msg', L, init=msg, writable=False), Sc('len', 64, L), Buf('out', 512, init=T.var('out0', 4096))]
    res, ex = entry.run(mod, 'h_groestl256', args)
    r = [x for x in res if x.status == 'ret'][0]
    got = r.mem(r.named['out'], 0, 32)
    old = spec.SHIFT_Q[8]
    spec.SHIFT_Q[8] = [1, 3, 5, 7, 0, 2, 4, 5]
    bad = spec.digest(msg, L, 256)
    spec.SHIFT_Q[8] = old
    from llsym.intrin import AES_SBOX
    asg = {'msg': run.rng.getrandbits(8 * L), 'cpu': (1 << 63) - 1}
    ev = T.Evaluator(asg, {'sbox8': lambda b: AES_SBOX[b]})
    run.canary('reference with a wrong ShiftBytes vector for Q is distinguished', ev.val(got) != ev.val(bad))
    run.bounds = {'message': 'symbolic bytes', 'lengths': {v: lens_for(v, run.tier) for v in (224, 256, 384, 512)},
                  'step from arbitrary state': '%d cases: chaining value and 64-bit block counter symbolic (covers counts beyond 255, 65535, 2^32)' % len(stasks),
                  'implementation modules': 'aes / ssse3 / sse2 function tables selected by the symbolic CPU-feature word (lazy_static initialiser executed)',
                  'outside': 'block counts of 2^64 and more'}
    run.assumptions += ['SubBytes: the AESENCLAST instruction is modelled as ShiftRows, SubBytes(sbox8), AddRoundKey with sbox8 uninterpreted; that the instruction computes the AES S-box is trusted (validated natively in setup)',
                        'std::sync::Once modelled single-threaded: the initialiser runs once, the state becomes COMPLETE',
                        'reference written from the Groestl specification, validated against 5 published digests', 'LLVM back end and CPU trusted']


if __name__ == '__main__':
    main_wrap(body, 'C07')
