#!/usr/bin/env python3-vt
# C14 - ChaCha block API: refill4 == 4 x refill, 64-bit counter with carry, stream id untouched, drounds 0..=10,
# every backend arm (from the real dispatchers, CPU-feature word symbolic), portable build, no-std builds, and the
# overflow-checked profile (panic reachability).
from common import *
from specs import chacha as spec

ENTRIES = {'h_c14_refill4': 4, 'h_c14_refill1x4': 4, 'h_c14_refill1': 1}


def args_for(nblk):
    return [Buf('key', 32, sym=True, writable=False), Buf('nonce', 8, sym=True, writable=False), Sc('ctr', 64), None,
            Buf('out', 64 * nblk), Buf('pout', 16)]


def expected(nblk, dr, rot=spec.ROT, carry=True):
    key, nonce, ctr = T.var('key', 256), T.var('nonce', 64), T.var('ctr', 64)
    blocks = []
    for i in range(nblk):
        if carry:
            c = T.add(ctr, T.const(i, 64))
        else:  # wrong model used by the canary: increment confined to the low word
            c = T.concat([T.add(T.extract(ctr, 0, 32), T.const(i, 32)), T.extract(ctr, 32, 32)])
        blocks.append(spec.block_djb(key, nonce, c, dr, rot))
    return T.concat(blocks), T.concat([T.add(ctr, T.const(nblk, 64)), nonce])


def check_entry(run, config, fname, dr, allow_panic_key=None):
    nblk = ENTRIES[fname]
    mod = module(config, run)
    args = args_for(nblk)
    args[3] = Sc('drounds', 32, dr)
    t0 = time.time()
    res, ex = entry.run(mod, fname, args)
    run.exec_s += time.time() - t0
    run.note_functions(execu.demangle_hint(f) for f in ex.funcs_run)
    exp_out, exp_p = expected(nblk, dr)
    for r in res:
        arm = arm_name(r.pc)
        name = '%s/%s/dr=%d/arm[%s]' % (fname, config, dr, arm)
        if r.status != 'ret':
            st, model = check.pc_feasible(r.pc)
            ob = check.Obligation(name + '/no-panic')
            ob.n_pairs = 1
            if st == 'unsat':
                ob.status = 'ok'
                run.add(ob)
                continue
            ob.status = 'sat' if st == 'sat' else 'unknown'
            ob.detail = r.status + ' ' + r.detail
            run.add(ob)
            if st == 'sat':
                confirm_panic(run, config, fname, args, model, r, dr)
            continue
        got = T.concat([r.mem(r.named['out']), r.mem(r.named['pout'])])
        ob = run.equal_spec(name, got, lambda: T.concat(list(expected(nblk, dr))), r.pc, timeout_s=300 if run.tier == 'thorough' else 120)
        if ob.status == 'sat':
            confirm_mismatch(run, config, fname, args, ob, r, exp_out, exp_p, dr)
    return res, ex


def confirm_panic(run, config, fname, args, model, r, dr):
    key = 'refill-counter-overflow-panic' if ('overflow' in r.detail) and fname != 'h_c14_refill4' else '%s:%s' % (fname, r.status)
    what = '%s (%s) panics: %s; ctr=%#x drounds=%d' % (fname, config, r.detail[:120], model.get('ctr', 0), dr)
    confirm(run, config, fname, args, model, key, what, kind='fault')


def confirm_mismatch(run, config, fname, args, ob, r, exp_out, exp_p, dr):
    key = '%s:mismatch:%s:%s' % (fname, 'portable' if 'nosimd' in config else 'x86', arm_name(r.pc))
    what = '%s differs from the reference block function (config %s, dr=%d, arm %s)' % (fname, config, dr, arm_name(r.pc))
    confirm(run, config, fname, args, ob.model, key, what, exp={'out': exp_out, 'pout': exp_p})


def _task(sub, t):
    check_entry(sub, *t)


def canaries(run):
    # (a) wrong rotation constant in the reference must be detected (strengthened query: seed-derived constants)
    mod = module('release-std', run)
    args = args_for(4)
    args[3] = Sc('drounds', 32, 1)
    res, ex = entry.run(mod, 'h_c14_refill4', args)
    bad_out, _ = expected(4, 1, rot=(16, 13, 8, 7))
    r = [x for x in res if x.status == 'ret'][0]
    got = r.mem(r.named['out'])
    asg = check.concrete_differs([(got, bad_out)], r.pc, [('key', 256), ('nonce', 64), ('ctr', 64), ('cpu', 63)], run.rng, tries=64)
    run.canary('reference with rotation 12->13 is distinguished from the implementation', asg is not None)
    # (b) a reference whose counter increment does not carry into the high word must be refuted by the solver (sat)
    args[3] = Sc('drounds', 32, 0)
    res, ex = entry.run(mod, 'h_c14_refill4', args)
    r = [x for x in res if x.status == 'ret'][0]
    bad_out, _ = expected(4, 0, carry=False)
    st, model, dt = check.solve_neq([(r.mem(r.named['out']), bad_out)], r.pc, 60)
    run.solver_s += dt
    ok = st == 'sat' and (model.get('ctr', 0) & 0xffffffff) >= 0xfffffffd
    run.canary('reference without low->high counter carry is refuted by the solver with a counter near 2^32', ok)


def body(run, a):
    assert spec.selftest()
    run.extra['kats_through_encoding'] = 0
    drs = list(range(11))
    configs = ['release-std', 'release-nosimd']
    if run.tier == 'thorough':
        configs += ['release-nostd-sse2', 'release-nostd-ssse3', 'release-nostd-sse41', 'release-nostd-avx', 'release-nostd-avx2']
    tasks = [(config, fname, dr) for config in configs for fname in ENTRIES for dr in drs]
    # overflow-checked profile: is a panic reachable? (counter within 4 of 2^64)
    tasks += [(config, fname, dr) for config in ['devchk-std', 'devchk-nosimd'] for fname in ENTRIES for dr in ([0, 10] if run.tier == 'quick' else drs)]
    for c in sorted({t[0] for t in tasks}):
        module(c, run)
    check.parallel(run, _task, tasks)
    canaries(run)
    run.bounds = {'drounds': '0..=10 (each a separate query; loop count is concrete)', 'key/nonce/counter': 'all values (symbolic)',
                  'cpu feature word': 'symbolic 63 bits (every dispatcher arm explored from the real dispatcher)',
                  'configs': configs + ['devchk-std', 'devchk-nosimd'], 'outside': 'drounds > 10'}
    run.assumptions += ['LLVM back end (instruction selection) and CPU are trusted; the check is over rustc-emitted optimised LLVM IR',
                        'harness built with panic=abort (no unwinding edges); panics end a path',
                        'std_detect cache word: bit 63 = initialised, other bits unconstrained',
                        'reference: RFC 7539 block function generalised to 64-bit counter / 64-bit nonce, validated against RFC vectors']


if __name__ == '__main__':
    main_wrap(body, 'C14')
