#!/usr/bin/env python3-vt
# C17 - Hash length counters stay exact for very long messages and at word boundaries.
# The counters are SYMBOLIC over their full width (minus the format limit), so 2^32 bits / 2^8, 2^16, 2^32 blocks / 2^32 bytes /
# the 2^64-bit low-word carry are all inside one query family: one update of n bytes (one or several blocks) followed by
# finalize, from an arbitrary chaining value and counter (hook verif_set_state), must equal the reference's continuation, in
# which the counter arguments of every compression call and the length bytes of the final block are exact arithmetic on the
# abstract length. BLAKE, Skein and Groestl run their real cores; JH's f8 is uninterpreted (its conformance is C06).
from common import *
import c04
import c05
import c06
import c07
from specs import blake as bspec, groestl as gspec


def task(run, t):
    fam = t[0]
    if fam == 'blake':
        c04.step_case(run, t[1:])
    elif fam == 'skein':
        c05.step_case(run, t[1:])
    elif fam == 'groestl':
        c07.step_case(run, t[1:])
    else:
        c06.step_case(run, t[1:])


def body(run, a):
    tasks = []
    for v in (224, 256, 384, 512):
        bs = bspec.PARAMS[v][3]
        lb = 2 * bspec.PARAMS[v][0] // 8
        edge = bs - 1 - lb
        many = [2 * bs + 3]
        for p, n in ([(0, bs + 1), (edge + 1, 1)] + [(1, m) for m in many] if run.tier == 'quick' else [(p, n) for p in (0, 1, edge, edge + 1, bs - 1) for n in [1, bs, bs + 1]] + [(p, m) for p in (0, 1) for m in many]):      # (four-compression continuations from a nearly full buffer do not normalise within the budgets: outside the claim)
            tasks.append(('blake', 'release-std', v, p, n))
        tasks.append(('blake', 'devchk-std', v, 0, bs + 1))
    for bits in (256, 512, 1024):
        bs = bits // 8
        for p, n in ([(0, bs + 1), (bs, 1), (1, 2 * bs + 3)] if run.tier == 'quick' else [(p, n) for p in (0, 1, bs - 1, bs) for n in (1, bs, bs + 1, 3 * bs + 5)]):
            tasks.append(('skein', 'release-std', bits, p, n, 0))
        tasks.append(('skein', 'devchk-std', bits, 0, bs + 1, 0))
    for v in (224, 256, 384, 512):
        bs = gspec.VARIANTS[v][0] // 8
        for p, n in ([(0, bs + 1), (bs - 8, 1), (1, 2 * bs + 3)] if run.tier == 'quick' else [(p, n) for p in (0, 1, bs - 9, bs - 8, bs - 1) for n in (1, bs, bs + 1, 3 * bs + 5)]):
            tasks.append(('groestl', 'release-std', v, p, n))
        tasks.append(('groestl', 'devchk-std', v, 0, bs + 1))
    for ob_ in (224, 256, 384, 512):
        for p, n in ([(0, 65), (56, 1), (1, 131)] if run.tier == 'quick' else [(p, n) for p in (0, 1, 55, 56, 63) for n in (1, 64, 65, 197)]):
            tasks.append(('jh', 'release-std', ob_, p, n))
        tasks.append(('jh', 'devchk-std', ob_, 0, 65))
    for c in ('release-std', 'devchk-std'):
        module(c, run)
    check.parallel(run, task, tasks)
    # canary: a reference that counts the padding block of Groestl twice must be refuted by the solver
    mod = module('release-std', run)
    cv, cnt = T.var('cv', 512), T.var('cnt', 64)
    msg = T.var('msg', 8)
    out0 = T.var('out0', 4096)
    args = [Buf('cv', 64, init=cv, writable=False), Sc('counter', 64, cnt), Buf('prefill', 0, init=(), writable=False), Sc('p', 64, 0),
            Buf('msg', 1, init=msg, writable=False), Sc('len', 64, 1), Buf('out', 512, init=out0)]
    res, ex = entry.run(mod, 'h_groestl256_step', args)
    r = [x for x in res if x.status == 'ret'][0]
    bad = gspec.digest(msg, 1, 256, h0=gspec.bytes_of(cv), blocks_before=T.add(cnt, T.const(1, 64)))
    from llsym.intrin import AES_SBOX
    asg = {'cv': run.rng.getrandbits(512), 'cnt': run.rng.getrandbits(64), 'msg': 7, 'cpu': 1}
    ev = T.Evaluator(asg, {'sbox8': lambda b: AES_SBOX[b]})
    run.canary('a reference whose block count is off by one is distinguished', ev.val(r.mem(r.named['out'], 0, 32)) != ev.val(bad))
    run.bounds = {'counters': 'symbolic: BLAKE bit counter (64/128 bits) < 2^(2w)-2^20, Groestl block counter < 2^64-16, JH byte counter < 2^61-4096, Skein byte counter < 2^64-2^16',
                  'appended bytes n': 'one byte, one block + 1, several blocks', 'buffer fill p': 'incl. the one-vs-two final block boundary', 'cases': len(tasks),
                  'outside': 'real streaming of 512 MiB (that is testing, not this technique); lengths at or beyond the format limits'}
    run.assumptions += ['state setters (cfg cryptocorrosion_verif) put the hasher into an arbitrary (chaining value, counter) state; the buffer is filled through update',
                        'JH: f8 uninterpreted here (C06 proves it); BLAKE / Skein / Groestl run real cores (S-box uninterpreted for Groestl)']


if __name__ == '__main__':
    main_wrap(body, 'C17')
