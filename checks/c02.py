#!/usr/bin/env python3-vt
# C02 - ChaCha output depends only on the absolute stream position, never on call history.
# Decided by ONE INDUCTIVE STEP from an arbitrary state satisfying the representation invariant (see chacha_step.py),
# for try_apply_keystream / try_seek::<T> / try_current_pos / new, release and overflow-checked IR, keystream cores summarised.
from common import *
import chacha_step as S


def grid(run):
    haves = list(range(-63, 64))
    tasks = []
    if run.tier == 'quick':
        N = 70
        for alias in ('chacha20', 'ietf'):
            for h in haves:
                for n in range(N + 1):
                    tasks.append(('release-std', alias, h, n))
            for h in (-63, -1, 0, 1, 63):
                for n in (255, 256, 257, 320):
                    tasks.append(('release-std', alias, h, n))
        for h in (-63, -17, -1, 0, 1, 30, 63):
            for n in (0, 1, 5, 63, 64, 65, 70, 256, 300):
                tasks.append(('release-std', 'xchacha8', h, n))
        for alias in ('chacha20', 'ietf'):
            for h in haves:
                for n in (0, 1, 2, 63, 64, 65, 70):
                    tasks.append(('devchk-std', alias, h, n))
    else:
        N = 330
        for alias in ('chacha20', 'ietf'):
            for h in haves:
                for n in range(N + 1):
                    tasks.append(('release-std', alias, h, n))
        for h in haves:
            for n in list(range(0, 131)) + [255, 256, 257, 320, 330]:
                tasks.append(('release-std', 'xchacha8', h, n))
        for alias in ('chacha20', 'ietf', 'xchacha8'):
            for h in haves:
                for n in list(range(0, 71)) + [127, 128, 129, 255, 256, 257, 320]:
                    tasks.append(('devchk-std', alias, h, n))
    return tasks, N


def apply_chunk(run, chunk):
    for t in chunk:
        S.apply_case(run, t)


def seek_chunk(run, chunk):
    for t in chunk:
        S.seek_case(run, t)


def body(run, a):
    tasks, N = grid(run)
    configs = sorted({t[0] for t in tasks})
    for c in configs:
        module(c, run)
    # chunk the tiny cases so that process start-up does not dominate
    chunks = [tasks[i:i + 40] for i in range(0, len(tasks), 40)]
    check.parallel(run, apply_chunk, chunks)
    # seek: every SeekNum type, symbolic position over the whole type, from several buffered states
    stasks = []
    for config in (['release-std', 'devchk-std'] if run.tier == 'quick' else ['release-std', 'devchk-std']):
        for alias in S.ALIASES:
            for ty in S.SEEK_TYPES:
                for h in ((-5, 0, 9) if run.tier == 'quick' else (-63, -5, 0, 9, 63)):
                    stasks.append((config, alias, h, ty))
    check.parallel(run, seek_chunk, [stasks[i:i + 12] for i in range(0, len(stasks), 12)])
    # current position, constructor
    for config in ('release-std', 'devchk-std'):
        for alias in S.ALIASES:
            for h in (-5, 0, 9):
                S.pos_case(run, (config, alias, h))
            S.new_case(run, (config, alias))
    canary(run)
    run.bounds = {'have (buffer fill)': 'all of -63..=63', 'request length n': '0..=%d complete for ChaCha20 and IETF in the release IR; subsets elsewhere' % N,
                  'counter / len / fresh / buffer / key / stream id / data / seek position': 'symbolic (64-bit types: counter < 2^58; IETF: all 2^32+1 consumption levels)',
                  'configs': configs, 'aliases': sorted(S.ALIASES), 'seek types': sorted(S.SEEK_TYPES), 'cases': len(tasks) + len(stasks),
                  'outside': 'single requests longer than %d bytes (the wide-chunk loop body is identical per chunk: stated, not proved); 64-bit counters >= 2^58' % N}
    run.extra['invariant'] = S.INV_TEXT
    run.assumptions += ['assume-guarantee: refill_narrow / refill_wide replaced by their contract (block = function of the state words and rounds; 64-bit counter += 1 / 4), which C14 proves for the real functions on every arm',
                        'induction over histories: Inv(new) + preservation by every operation from any Inv state (obligations of this check) => every reachable state satisfies Inv',
                        'overflow-checked profile uses a concrete memory layout (objects at k*2^32) because std\'s debug precondition checks compare addresses',
                        'LLVM back end and CPU trusted; harness built with panic=abort']


def canary(run):
    # a wrong expectation (keystream byte of position P+1 instead of P) must be refuted
    mod = module('release-std', run)
    pre = S.Pre('chacha20', 7)
    n = 20
    args = pre.args() + [Buf('data', n, sym=True), Sc('n', 64, n), Buf('post', 91)]
    res, ex = S.run_with_pre(mod, 'h_step_apply_chacha20', args, pre)
    r = [x for x in res if x.status == 'ret'][0]
    pre2 = S.Pre('chacha20', 6)
    bad = S.expected_data(pre2, n)
    st, model, dt = check.solve_neq([(r.mem(r.named['data']), bad)], r.pc, 60)
    run.canary('expectation shifted by one byte position is refuted (sat)', st == 'sat')
    # a state violating Inv (stale buffer contents) must make the step fail: shows the invariant is not vacuous
    pre3 = S.Pre('chacha20', 7)
    pre3.out = T.var('out', 512)
    args = pre3.args() + [Buf('data', n, sym=True), Sc('n', 64, n), Buf('post', 91)]
    res, ex = S.run_with_pre(mod, 'h_step_apply_chacha20', args, pre3)
    r = [x for x in res if x.status == 'ret'][0]
    st, model, dt = check.solve_neq([(r.mem(r.named['data']), S.expected_data(pre, n))], r.pc, 60)
    run.canary('dropping the buffer clause of the invariant makes the step fail (sat)', st == 'sat')


if __name__ == '__main__':
    main_wrap(body, 'C02')
