#!/usr/bin/env python3-vt
# C03 - Every algorithm gives identical results on every SIMD backend and build configuration.
# Direct implementation-vs-implementation comparison (independent of the reference specifications): every dispatching entry is
# executed from its real dispatcher with the CPU-feature word symbolic (std), in the portable build (no_simd) and in the
# compile-time-dispatch builds (no-std, -C target-feature=...), all inputs symbolic; the outputs of every arm / build must
# equal those of the first one, and no arm may panic or fault where another returns.
from common import *
from specs import blake as bspec


def entries(tier):
    e = []
    key, nonce8 = T.var('key', 256), T.var('nonce', 64)
    for dr in ((4, 10) if tier == 'quick' else (0, 1, 4, 6, 10)):
        for fname, nblk in (('h_c14_refill4', 4), ('h_c14_refill1', 1)):
            e.append(('chacha:%s:dr=%d' % (fname[6:], dr), fname,
                      lambda dr=dr, nblk=nblk: [Buf('key', 32, init=key, writable=False), Buf('nonce', 8, init=nonce8, writable=False), Sc('ctr', 64), Sc('drounds', 32, dr), Buf('out', 64 * nblk), Buf('pout', 16)],
                      ['out', 'pout'], True))
    for alias, nb, o, L in (('xchacha8', 24, 5, 70), ('ietf', 12, 1, 300), ('chacha20', 8, 5, 300)):
        pos = T.concat([T.const(o, 6), T.var('B', 32), T.const(0, 26)])
        e.append(('chacha:%s:seek+apply' % alias, 'h_c01_' + alias,
                  lambda alias=alias, nb=nb, pos=pos, L=L: [Buf('key', 32, init=key, writable=False), Buf('nonce', nb, init=T.var('nonce%d' % nb, 8 * nb), writable=False), Sc('pos', 64, pos), Buf('data', L, init=T.var('data', 8 * L)), Sc('len', 64, L)],
                  ['data'], True))
    for v, p, n in ((256, 3, 70), (224, 0, 56), (512, 3, 100), (384, 0, 100)):
        w = bspec.PARAMS[v][0]
        t = T.var('t%d' % w, 2 * w)
        e.append(('blake%d:update+finalize' % v, 'h_blake%d_step' % v,
                  lambda v=v, p=p, n=n, w=w, t=t: [Buf('h', w, init=T.var('h%d' % w, 8 * w), writable=False), Sc('t0', 64, T.zext(T.extract(t, 0, w), 64)), Sc('t1', 64, T.zext(T.extract(t, w, w), 64)),
                                                   Buf('prefill', p, init=T.var('pre', 8 * p) if p else (), writable=False), Sc('p', 64, p), Buf('msg', n, init=T.var('msg', 8 * n), writable=False), Sc('len', 64, n),
                                                   Buf('out', 512, init=T.var('out0', 4096))],
                  ['out'], True))
    # JH: one E8 round per query (algebraic normal form makes every arm's bit-sliced formulas canonical); the whole f8 per arm is C06
    for r in ((0, 1, 2, 3, 4, 5, 6, 41) if tier == 'quick' else range(42)):      # rounds 0..6 use the seven different swap widths
        e.append(('jh:round%d' % r, 'h_jh_rounds', lambda r=r: [Buf('state', 128, init=T.var('jh', 1024)), Sc('from', 64, r), Sc('to', 64, r + 1)], ['state'], False))
    return e


def one(run, task):
    idx, configs = task
    name, fname, mkargs, outs, in_nostd = entries(run.tier)[idx]
    T.ANF[0] = name.startswith('jh')
    try:
        _one(run, idx, configs, name, fname, mkargs, outs, in_nostd)
    finally:
        T.ANF[0] = False


def _one(run, idx, configs, name, fname, mkargs, outs, in_nostd):
    collected = []
    collected_args = {}
    statuses = {}
    for config in configs:
        if 'nostd' in config and not in_nostd:
            continue
        if config.startswith('devchk') and not (name.startswith('chacha') or name.startswith('blake')):
            continue
        mod = module(config, run)
        args = mkargs()
        collected_args[config] = args
        ex = entry.default_exec(mod)
        if config.startswith('devchk'):
            ex.stop_after_failures = 3
        pre = None
        if name.startswith('blake'):
            tv = [a.val for a in args if isinstance(a, Sc) and a.name in ('t0', 't1')]
            w = T.width(args[0].init) // 8
            t = T.concat([T.extract(tv[0], 0, w), T.extract(tv[1], 0, w)])
            pre = lambda e, t=t, w=w: e.assume(T.ult(t, T.const((1 << (2 * w)) - (1 << 20), 2 * w)), True)
        t0 = time.time()
        res, ex = entry.run(mod, fname, args, ex=ex, pre=pre)
        run.exec_s += time.time() - t0
        run.note_functions(execu.demangle_hint(f) for f in ex.funcs_run)
        for r in res:
            arm = arm_name(r.pc)
            desc = '%s/arm[%s]' % (config, arm)
            oname = '%s/%s' % (name, desc)
            # infeasible data-dependent paths are skipped
            core = [(c, v) for c, v in r.pc if T.support([c])[0] != {'cpu'}]
            if len(core) >= 1 and check.pc_feasible(core, 20)[0] == 'unsat':
                continue
            statuses[desc] = r.status
            if r.status != 'ret':
                st, model = check.pc_feasible(r.pc)
                ob = check.Obligation(oname + '/returns')
                ob.n_pairs = 1
                ob.status = 'ok' if st == 'unsat' else st
                ob.detail = r.status + ' ' + r.detail
                run.add(ob)
                if st == 'sat':
                    confirm(run, config, fname, args, model, '%s:%s:%s' % (name.split(':')[0], 'portable' if 'nosimd' in config else config, r.status.split(':')[0]),
                            '%s %s on %s while other backends return (%s)' % (name, r.status, desc, r.detail[:80]), kind='fault')
                continue
            if config.startswith('devchk'):
                continue        # overflow-checked builds: a backend that panics where the others return is the disagreement looked for
            collected.append((config, arm, desc, oname, ex, r, core))
    if not collected:
        return
    # the returning paths of the first (configuration, arm) partition the input space by their data-dependent conditions (counter
    # carries, ...): they are the references; every other path is compared with each reference whose conditions are jointly feasible
    # with its own, under the conjunction of both path conditions
    ref_key = collected[0][:2]
    refs = [c_ for c_ in collected if c_[:2] == ref_key]
    for config, arm, desc, oname, ex, r, core in refs:
        ob = check.Obligation(oname + '/reference')
        ob.n_pairs = 1
        ob.n_identical = 1
        ob.status = 'identical'
        run.add(ob)
    for config, arm, desc, oname, ex, r, core in collected:
        if (config, arm) == ref_key:
            continue
        got = T.concat([r.mem(r.named[o]) for o in outs])
        for rconfig, rarm, refdesc, _on, ref_ex, ref_r, ref_core in refs:
            joint = list(core) + [x for x in ref_core if x not in core]
            if ref_core and core and check.pc_feasible(joint, 20)[0] == 'unsat':
                continue
            pcj = list(r.pc) + [x for x in ref_core if x not in r.pc]
            ref = T.concat([ref_r.mem(ref_r.named[o]) for o in outs])

            def ref_again(ref_ex=ref_ex, ref_r=ref_r):
                r2 = entry.rerun(ref_ex, ref_r)
                return T.concat([r2.mem(r2.named[o]) for o in outs])

            def this_again(ex=ex, r=r):
                r2 = entry.rerun(ex, r)
                return T.concat([r2.mem(r2.named[o]) for o in outs])
            # both sides are implementation runs: small-cone lemmas are installed as aliases and BOTH paths are re-executed
            suffix = '' if len(refs) == 1 else '|ref-path %d' % refs.index((rconfig, rarm, refdesc, _on, ref_ex, ref_r, ref_core))
            ob = run.equal_spec(oname + '/equals[%s%s]' % (refdesc, suffix), got, ref_again, pcj, timeout_s=120, split=64, impl_fn=this_again)
            if ob.status == 'sat':
                exp = {}
                off = 0
                for o in outs:
                    wdt = 8 * r.named[o].size
                    exp[o] = T.extract(ref, off, wdt)
                    off += wdt
                confirm(run, config, fname, collected_args[config], ob.model, '%s:%s' % (name.split(':')[0], 'portable' if 'nosimd' in config else (config if 'nostd' in config else arm)),
                        '%s: %s differs from %s' % (name, desc, refdesc), exp=exp)


def body(run, a):
    configs = ['release-std', 'release-nosimd', 'release-nostd-sse2']
    if run.tier == 'thorough':
        configs += ['release-nostd-ssse3', 'release-nostd-sse41', 'release-nostd-avx', 'release-nostd-avx2']
    configs += ['devchk-std', 'devchk-nosimd']
    for c in configs:
        module(c, run)
    n = len(entries(run.tier))
    check.parallel(run, one, [(i, configs) for i in range(n)])
    # canary: two different entries (1 block vs 4 blocks of keystream) must not compare equal
    mod = module('release-std', run)
    key, nonce8 = T.var('key', 256), T.var('nonce', 64)
    a4 = [Buf('key', 32, init=key, writable=False), Buf('nonce', 8, init=nonce8, writable=False), Sc('ctr', 64), Sc('drounds', 32, 4), Buf('out', 64), Buf('pout', 16)]
    r1 = [x for x in entry.run(mod, 'h_c14_refill1', a4)[0] if x.status == 'ret'][0]
    a5 = [Buf('key', 32, init=key, writable=False), Buf('nonce', 8, init=nonce8, writable=False), Sc('ctr', 64), Sc('drounds', 32, 6), Buf('out', 64), Buf('pout', 16)]
    r2 = [x for x in entry.run(mod, 'h_c14_refill1', a5)[0] if x.status == 'ret'][0]
    run.canary('outputs for 4 and 6 double rounds are distinguished', check.concrete_differs([(r1.mem(r1.named['out']), r2.mem(r2.named['out']))], [], [('key', 256), ('nonce', 64), ('ctr', 64), ('cpu', 63)], run.rng) is not None)
    run.bounds = {'entries': [e[0] for e in entries(run.tier)], 'configurations': configs, 'arms': 'every dispatcher arm reachable under a symbolic CPU-feature word',
                  'inputs': 'all symbolic (keys, nonces, counters, chaining values, message bytes)', 'outside': 'JH in the no-std builds (jh-x86_64 forces ppv-lite86/std); Groestl has no ppv-lite86 backends'}
    run.assumptions += ['cross-configuration equality is syntactic identity / z3 over terms produced from separately compiled IR modules',
                        'CPU-feature word: 63 unconstrained bits; LLVM back end and CPUs trusted']


if __name__ == '__main__':
    main_wrap(body, 'C03')
