#!/usr/bin/env python3-vt
# C10 - Threefish decryption is the exact inverse of encryption (both composition orders), all keys/tweaks/blocks
from common import *

SIZES = {256: 4, 512: 8, 1024: 16}


def case(run, task):
    config, bits, order = task
    nb = bits // 8
    mod = module(config, run)
    fname = 'h_tf%d_%s' % (bits, order)
    key, blk, t0, t1 = T.var('key', bits), T.var('block', bits), T.var('t0', 64), T.var('t1', 64)
    args = [Buf('key', nb, init=key, writable=False), Sc('t0', 64, t0), Sc('t1', 64, t1), Buf('block', nb, init=blk)]
    t0_ = time.time()
    res, ex = entry.run(mod, fname, args)
    run.exec_s += time.time() - t0_
    run.note_functions(execu.demangle_hint(f) for f in ex.funcs_run)
    for r in res:
        name = 'threefish%d/%s/%s' % (bits, order, config)
        if r.status != 'ret':
            st, model = check.pc_feasible(r.pc)
            ob = check.Obligation(name + '/no-fault')
            ob.n_pairs = 1
            ob.status = 'ok' if st == 'unsat' else st
            run.add(ob)
            if st == 'sat':
                confirm(run, config, fname, args, model, 'tf%d:%s:fault' % (bits, order), 'Threefish-%d %s %s' % (bits, order, r.status), kind='fault')
            continue
        got = r.mem(r.named['block'])
        pairs = [(T.extract(got, 64 * i, 64), T.extract(blk, 64 * i, 64)) for i in range(bits // 64)]
        ob = run.equal(name, pairs, r.pc, timeout_s=300)
        if ob.status == 'sat':
            confirm(run, config, fname, args, ob.model, 'tf%d:%s:not-inverse' % (bits, order),
                    'Threefish-%d: %s does not return the original block (%s)' % (bits, 'decrypt(encrypt(b))' if order == 'encdec' else 'encrypt(decrypt(b))', config), exp={'block': blk})


def body(run, a):
    configs = ['release-std', 'release-nounroll', 'devchk-std']
    for c in configs:
        module(c, run)
    check.parallel(run, case, [(c, b, o) for c in configs for b in SIZES for o in ('encdec', 'decenc')])
    # canary: encrypt alone is not the identity (the harness really runs the cipher, the obligation is not vacuous)
    mod = module('release-std', run)
    key, blk, t0, t1 = T.var('key', 256), T.var('block', 256), T.var('t0', 64), T.var('t1', 64)
    args = [Buf('key', 32, init=key, writable=False), Sc('t0', 64, t0), Sc('t1', 64, t1), Buf('block', 32, init=blk)]
    res, ex = entry.run(mod, 'h_tf256_enc', args)
    r_ = [x for x in res if x.status == 'ret'][0]
    got = r_.mem(r_.named['block'])
    run.canary('encrypt alone is distinguished from the identity', check.concrete_differs([(got, blk)], [], [('key', 256), ('block', 256), ('t0', 64), ('t1', 64)], run.rng) is not None)
    run.bounds = {'key, tweak, block': 'all values (symbolic)', 'sizes': [256, 512, 1024], 'orders': ['decrypt(encrypt(b))', 'encrypt(decrypt(b))'], 'builds': configs}
    run.assumptions += ['the composition is executed back to back on the real code; the linear normal form ((x0+x1)-x1 = x0) and rotate cancellation reduce it; residues go to z3',
                        'LLVM back end and CPU trusted; panic=abort']


if __name__ == '__main__':
    main_wrap(body, 'C10')
