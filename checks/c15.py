#!/usr/bin/env python3-vt
# C15 - ChaCha stream parameters: set/get round trip, isolation, equality with a directly constructed state,
# and the iff-characterisation of stream32_eq / stream64_eq.
from common import *
from specs import chacha as spec


def setget(run, task):
    config, param, dr = task
    mod = module(config, run)
    args = [Buf('key', 32, sym=True, writable=False), Buf('nonce', 8, sym=True, writable=False), Sc('ctr0', 64), Sc('param', 32, param),
            Sc('value', 64), Sc('drounds', 32, dr), Buf('out', 64), Buf('pout', 16)]
    t0 = time.time()
    res, ex = entry.run(mod, 'h_c15_setget', args)
    run.exec_s += time.time() - t0
    run.note_functions(execu.demangle_hint(f) for f in ex.funcs_run)
    key, nonce, ctr0, value = T.var('key', 256), T.var('nonce', 64), T.var('ctr0', 64), T.var('value', 64)
    p0 = value if param == 0 else ctr0          # parameter 0: block counter
    p1 = value if param == 1 else nonce         # parameter 1: stream id
    exp_p = T.concat([p0, p1])
    exp_out = spec.block_djb(key, p1, p0, dr)   # the block a state created directly with those values would emit
    for r in res:
        name = 'setget/%s/param=%d/dr=%d/arm[%s]' % (config, param, dr, arm_name(r.pc))
        if r.status != 'ret':
            st, model = check.pc_feasible(r.pc)
            ob = check.Obligation(name + '/no-fault')
            ob.n_pairs = 1
            ob.status = 'ok' if st == 'unsat' else st
            ob.detail = r.status + ' ' + r.detail
            run.add(ob)
            if st == 'sat':
                confirm(run, config, 'h_c15_setget', args, model, 'setget:fault', '%s %s' % (r.status, r.detail[:120]), kind='fault')
            continue
        got_p, got_o = r.mem(r.named['pout']), r.mem(r.named['out'])
        pairs = [(T.extract(got_p, 32 * i, 32), T.extract(exp_p, 32 * i, 32)) for i in range(4)] + \
                [(T.extract(got_o, 32 * i, 32), T.extract(exp_out, 32 * i, 32)) for i in range(16)]
        ob = run.equal(name, pairs, r.pc)
        if ob.status == 'sat':
            confirm(run, config, 'h_c15_setget', args, ob.model, 'setget:mismatch:param%d' % param,
                    'set_stream_param(%d) / get / following block differ from a directly constructed state (%s)' % (param, config),
                    exp={'out': exp_out, 'pout': exp_p})


def set_wide(run, task):
    """history set_stream_param -> refill4 (four blocks) -> get both parameters -> refill: the counter read back is value + 4, the stream
    id and key are untouched, and the fifth block is the block a state created directly at value + 4 would emit"""
    config, param, dr = task
    mod = module(config, run)
    args = [Buf('key', 32, sym=True, writable=False), Buf('nonce', 8, sym=True, writable=False), Sc('ctr0', 64), Sc('param', 32, param),
            Sc('value', 64), Sc('drounds', 32, dr), Buf('out4', 256), Buf('out', 64), Buf('pout', 16)]
    t0 = time.time()
    res, ex = entry.run(mod, 'h_c15_set_refill4', args)
    run.exec_s += time.time() - t0
    run.note_functions(execu.demangle_hint(f) for f in ex.funcs_run)
    key, nonce, ctr0, value = T.var('key', 256), T.var('nonce', 64), T.var('ctr0', 64), T.var('value', 64)
    p0 = value if param == 0 else ctr0
    p1 = value if param == 1 else nonce

    def specf():
        nxt = T.add(p0, T.const(4, 64))
        return T.concat([nxt, p1] + [spec.block_djb(key, p1, T.add(p0, T.const(i, 64)), dr) for i in range(4)] + [spec.block_djb(key, p1, nxt, dr)])
    for r in res:
        name = 'set+refill4+get+refill/%s/param=%d/dr=%d/arm[%s]' % (config, param, dr, arm_name(r.pc))
        if r.status != 'ret':
            st, model = check.pc_feasible(r.pc)
            ob = check.Obligation(name + '/no-fault')
            ob.n_pairs = 1
            ob.status = 'ok' if st == 'unsat' else st
            ob.detail = r.status + ' ' + r.detail
            run.add(ob)
            if st == 'sat':
                confirm(run, config, 'h_c15_set_refill4', args, model, 'setwide:fault', '%s %s' % (r.status, r.detail[:120]), kind='fault')
            continue
        if config.startswith('devchk'):
            continue        # overflow-checked profile: panic reachability only (values are proved on the release IR)
        got = T.concat([r.mem(r.named['pout']), r.mem(r.named['out4']), r.mem(r.named['out'])])
        ob = run.equal_spec(name, got, specf, r.pc, impl_fn=lambda: (lambda r2: T.concat([r2.mem(r2.named['pout']), r2.mem(r2.named['out4']), r2.mem(r2.named['out'])]))(entry.rerun(ex, r)))
        if ob.status == 'sat':
            exp = specf()
            confirm(run, config, 'h_c15_set_refill4', args, ob.model, 'setwide:mismatch:param%d' % param,
                    'set_stream_param(%d), refill4, get, refill: position / following block differ from a directly constructed state (%s)' % (param, config),
                    exp={'pout': T.extract(exp, 0, 128), 'out4': T.extract(exp, 128, 2048), 'out': T.extract(exp, 2176, 512)})


def eqpred(run, task):
    config, = task
    mod = module(config, run)
    args = [Buf('key1', 32, sym=True, writable=False), Buf('nonce1', 8, sym=True, writable=False), Sc('ctr1', 64),
            Buf('key2', 32, sym=True, writable=False), Buf('nonce2', 8, sym=True, writable=False), Sc('ctr2', 64)]
    res, ex = entry.run(mod, 'h_c15_eq', args)
    run.note_functions(execu.demangle_hint(f) for f in ex.funcs_run)
    k1, k2 = T.var('key1', 256), T.var('key2', 256)
    n1, n2 = T.var('nonce1', 64), T.var('nonce2', 64)
    c1, c2 = T.var('ctr1', 64), T.var('ctr2', 64)
    same_key = T.eq(k1, k2)
    same_id = T.eq(n1, n2)
    same_hi = T.eq(T.extract(c1, 32, 32), T.extract(c2, 32, 32))
    spec64 = T.and1(same_key, same_id)
    spec32 = T.and1(spec64, same_hi)
    for r in res:
        name = 'stream_eq/%s/arm[%s]' % (config, arm_name(r.pc))
        if r.status != 'ret':
            st, model = check.pc_feasible(r.pc)
            ob = check.Obligation(name + '/no-fault')
            ob.n_pairs = 1
            ob.status = 'ok' if st == 'unsat' else st
            run.add(ob)
            if st == 'sat':
                confirm(run, config, 'h_c15_eq', args, model, 'eq:fault', r.status, kind='fault')
            continue
        exp = T.concat([spec32, spec64, T.const(0, 30)])
        ob = run.equal(name, [(r.ret, exp)], r.pc)
        if ob.status == 'sat':
            ev = T.Evaluator(ob.model)
            confirm(run, config, 'h_c15_eq', args, ob.model, 'eq:mismatch', 'stream32_eq/stream64_eq disagree with their definition (%s)' % config,
                    kind='ret', exp_ret=ev.val(exp))
    return res


def canaries(run):
    mod = module('release-std', run)
    # predicate canary: a definition of stream32_eq that forgets the high counter word must be refuted by the solver
    args = [Buf('key1', 32, sym=True, writable=False), Buf('nonce1', 8, sym=True, writable=False), Sc('ctr1', 64),
            Buf('key2', 32, sym=True, writable=False), Buf('nonce2', 8, sym=True, writable=False), Sc('ctr2', 64)]
    res, ex = entry.run(mod, 'h_c15_eq', args)
    r = [x for x in res if x.status == 'ret'][0]
    k = T.and1(T.eq(T.var('key1', 256), T.var('key2', 256)), T.eq(T.var('nonce1', 64), T.var('nonce2', 64)))
    bad = T.concat([k, k, T.const(0, 30)])
    st, model, dt = check.solve_neq([(r.ret, bad)], r.pc, 60, congruence=False)
    run.canary('stream32_eq reference that ignores counter word 1 is refuted (sat)', st == 'sat')
    # set/get canary: swapping the roles of the parameters in the reference must be detected
    args = [Buf('key', 32, sym=True, writable=False), Buf('nonce', 8, sym=True, writable=False), Sc('ctr0', 64), Sc('param', 32, 0),
            Sc('value', 64), Sc('drounds', 32, 1), Buf('out', 64), Buf('pout', 16)]
    res, ex = entry.run(mod, 'h_c15_setget', args)
    r = [x for x in res if x.status == 'ret'][0]
    bad = T.concat([T.var('ctr0', 64), T.var('value', 64)])
    st, model, dt = check.solve_neq([(r.mem(r.named['pout']), bad)], r.pc, 60)
    run.canary('set_stream_param(0) reference that writes parameter 1 instead is refuted (sat)', st == 'sat')


def body(run, a):
    assert spec.selftest()
    configs = ['release-std', 'release-nosimd', 'devchk-std', 'devchk-nosimd']
    for c in configs:
        module(c, run)
    tasks = [(c, p, dr) for c in configs for p in (0, 1) for dr in ((0, 1, 10) if run.tier == 'quick' else range(11))]
    check.parallel(run, setget, tasks)
    check.parallel(run, set_wide, [(c, p, dr) for c in configs for p in (0, 1) for dr in ((1, 10) if run.tier == 'quick' else (0, 1, 4, 6, 10))])
    check.parallel(run, eqpred, [(c,) for c in configs])
    canaries(run)
    run.bounds = {'param': '0 and 1 (param >= 2 is outside the documented domain: index panic)', 'values': 'all 64-bit values, all keys, stream ids, prior counters (symbolic)',
                  'drounds of the following block': sorted({t[2] for t in tasks}), 'configs': configs}
    run.assumptions += ['"state created directly with those values" = reference block function on (key, counter, stream id)',
                        'LLVM back end and CPU trusted; harness built with panic=abort']


if __name__ == '__main__':
    main_wrap(body, 'C15')
