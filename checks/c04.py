#!/usr/bin/env python3-vt
# C04 - BLAKE-224/256/384/512 digests conform to the BLAKE specification for every message.
# (a) full digests through the Digest API with a symbolic message, every dispatcher arm (CPU-feature word symbolic) and the
#     portable build, for the length classes the property names;
# (b) one step from an ARBITRARY chaining value / bit counter / buffer fill (hook verif_set_state): update + finalize equals
#     the reference's padding + compression from that state - with (a) and C08 this gives every length by induction.
from common import *
from specs import blake as spec


def lens_for(variant, tier):
    bs = spec.PARAMS[variant][3]
    lb = 2 * spec.PARAMS[variant][0] // 8
    edge = bs - 1 - lb       # 55 / 111: last length that still fits one final block
    if tier == 'quick':
        return sorted({0, 1, edge, edge + 1, bs - 1, bs, bs + 1, bs + edge + 1})
    return list(range(0, 2 * bs + 2))


def digest_case(run, task):
    config, variant, L = task
    w, rounds, rot, bs, dn, marker = spec.PARAMS[variant]
    mod = module(config, run)
    fname = 'h_blake%d' % variant
    msg = T.var('msg', 8 * L)
    args = [Buf('msg', L, init=msg, writable=False), Sc('len', 64, L), Buf('out', 512, init=T.var('out0', 4096))]
    t0 = time.time()
    res, ex = entry.run(mod, fname, args)
    run.exec_s += time.time() - t0
    run.note_functions(execu.demangle_hint(f) for f in ex.funcs_run)
    exp = spec.digest(msg, L, variant)
    full = T.concat([exp, T.extract(T.var('out0', 4096), 8 * dn, 4096 - 8 * dn)])
    for r in res:
        arm = arm_name(r.pc)
        name = 'blake%d/digest/%s/L=%d/arm[%s]' % (variant, config, L, arm)
        if r.status != 'ret':
            st, model = check.pc_feasible(r.pc)
            ob = check.Obligation(name + '/returns')
            ob.n_pairs = 1
            ob.status = 'ok' if st == 'unsat' else st
            ob.detail = r.status + ' ' + r.detail
            run.add(ob)
            if st == 'sat':
                key = 'blake%d:%s:%s' % (variant, 'portable' if 'nosimd' in config else 'x86', r.status.split(':')[0])
                confirm(run, config, fname, args, model, key, 'Blake%d %s on the %s backend (%s) [L=%d]' % (variant, r.status, 'portable' if 'nosimd' in config else arm, r.detail[:80], L), kind='fault')
            continue
        got = r.mem(r.named['out'])
        ob = run.equal_spec(name, got, lambda: T.concat([spec.digest(msg, L, variant), T.extract(T.var('out0', 4096), 8 * dn, 4096 - 8 * dn)]), r.pc, timeout_s=120, split=w)
        if ob.status == 'sat':
            key = 'blake%d:digest:%s' % (variant, 'portable' if 'nosimd' in config else ('sse2-class' if '!ssse3' in arm else arm))
            confirm(run, config, fname, args, ob.model, key, 'Blake%d digest differs from the specification [L=%d %s arm %s]' % (variant, L, config, arm), exp={'out': full})


def step_case(run, task):
    config, variant, p, n = task
    w, rounds, rot, bs, dn, marker = spec.PARAMS[variant]
    mod = module(config, run)
    fname = 'h_blake%d_step' % variant
    hbits = T.var('h', 8 * w)
    t = T.var('t', 2 * w)
    pre, msg = T.var('pre', 8 * p), T.var('msg', 8 * n)
    t0v, t1v = T.extract(t, 0, w), T.extract(t, w, w)
    args = [Buf('h', w, init=hbits, writable=False), Sc('t0', 64, T.zext(t0v, 64)), Sc('t1', 64, T.zext(t1v, 64)),
            Buf('prefill', p, init=pre, writable=False), Sc('p', 64, p), Buf('msg', n, init=msg, writable=False), Sc('len', 64, n),
            Buf('out', 512, init=T.var('out0', 4096))]
    t0 = time.time()
    # format limit: the bit counter has 2w bits; longer messages are outside the claim
    res, ex = entry.run(mod, fname, args, pre=lambda e: e.assume(T.ult(t, T.const((1 << (2 * w)) - (1 << 20), 2 * w)), True))
    run.exec_s += time.time() - t0
    run.note_functions(execu.demangle_hint(f) for f in ex.funcs_run)
    h0 = [T.extract(hbits, w * i, w) for i in range(8)]
    allmsg = T.concat([pre, msg])
    exp = spec.digest(allmsg, p + n, variant, h0=h0, t_offset=t)
    full = T.concat([exp, T.extract(T.var('out0', 4096), 8 * dn, 4096 - 8 * dn)])
    for r in res:
        arm = arm_name(r.pc)
        name = 'blake%d/step/%s/p=%d/n=%d/arm[%s]' % (variant, config, p, n, arm)
        if r.status != 'ret':
            st, model = check.pc_feasible(r.pc)
            ob = check.Obligation(name + '/returns')
            ob.n_pairs = 1
            ob.status = 'ok' if st == 'unsat' else st
            ob.detail = r.status + ' ' + r.detail
            run.add(ob)
            if st == 'sat':
                tv = model.get('t', 0)
                if 'overflow' in r.detail:
                    key = 'blake%d:counter-overflow-panic' % variant
                    what = 'Blake%d panics in overflow-checked builds when the bit counter passes 2^%d (t=%#x)' % (variant, 2 * w, tv)
                else:
                    key = 'blake%d:step:%s' % (variant, r.status.split(':')[0])
                    what = 'Blake%d update/finalize %s (%s)' % (variant, r.status, r.detail[:80])
                confirm(run, config, fname, args, model, key, what, kind='fault')
            continue
        if config.startswith('devchk'):
            continue    # overflow-checked profile: only panic reachability is decided here (values are proved on the release IR)
        got = r.mem(r.named['out'])

        def specf():
            e = spec.digest(allmsg, p + n, variant, h0=h0, t_offset=t)
            return T.concat([e, T.extract(T.var('out0', 4096), 8 * dn, 4096 - 8 * dn)])
        ob = run.equal_spec(name, got, specf, r.pc, timeout_s=120, split=w, impl_fn=lambda: (lambda r2: r2.mem(r2.named['out']))(entry.rerun(ex, r)))
        if ob.status == 'sat':
            key = 'blake%d:step:%s' % (variant, 'portable' if 'nosimd' in config else ('sse2-class' if '!ssse3' in arm else arm))
            confirm(run, config, fname, args, ob.model, key, 'Blake%d from an arbitrary state: digest differs from the specification [p=%d n=%d t=%#x %s]' % (variant, p, n, ob.model.get('t', 0), config), exp={'out': full})


def body(run, a):
    assert spec.selftest()
    configs = ['release-std', 'release-nosimd']
    tasks = []
    for v in (224, 256, 384, 512):
        for L in lens_for(v, run.tier):
            tasks.append(('release-std', v, L))
        for L in (lens_for(v, 'quick') if run.tier == 'thorough' else [0, spec.PARAMS[v][3] - 1 - 2 * spec.PARAMS[v][0] // 8 + 1, spec.PARAMS[v][3] + 1]):
            tasks.append(('release-nosimd', v, L))
    stasks = []
    for v in (224, 256, 384, 512):
        bs = spec.PARAMS[v][3]
        lb = 2 * spec.PARAMS[v][0] // 8
        edge = bs - 1 - lb
        ps = range(bs) if run.tier == 'thorough' else sorted({0, 1, edge - 1, edge, edge + 1, bs - 1})
        for p in ps:
            for n in ((0, 1, bs - p, bs + 1) if run.tier == 'thorough' else (0, 1)):
                stasks.append(('release-std', v, p, n))
        for p in ((0, edge, edge + 1) if run.tier == 'quick' else ps):
            stasks.append(('devchk-std', v, p, 1))
    for c in ['release-std', 'release-nosimd', 'devchk-std']:
        module(c, run)
    check.parallel(run, digest_case, tasks)
    check.parallel(run, step_case, stasks)
    # canaries
    mod = module('release-std', run)
    L = 3
    msg = T.var('msg', 8 * L)
    args = [Buf('msg', L, init=msg, writable=False), Sc('len', 64, L), Buf('out', 512, init=T.var('out0', 4096))]
    res, ex = entry.run(mod, 'h_blake256', args)
    r = [x for x in res if x.status == 'ret'][0]
    got = r.mem(r.named['out'], 0, 32)
    # wrong marker bit (the BLAKE-224 marker) must be distinguished
    bad = spec.digest(msg, L, 256)
    spec.PARAMS[256] = spec.PARAMS[256][:5] + (0,)
    bad = spec.digest(msg, L, 256)
    spec.PARAMS[256] = spec.PARAMS[256][:5] + (1,)
    run.canary('reference with the wrong padding marker bit is distinguished', check.concrete_differs([(got, bad)], [], [('msg', 8 * L), ('cpu', 63)], run.rng) is not None)
    run.bounds = {'message': 'symbolic bytes', 'lengths (full digests)': {v: lens_for(v, run.tier) for v in (224, 256, 384, 512)},
                  'step from arbitrary state': 'chaining value, bit counter (full width) and buffered bytes symbolic; buffer fill p and appended length n enumerated: %d cases' % len(stasks),
                  'configs': ['release-std (all dispatcher arms)', 'release-nosimd', 'devchk-std'], 'outside': 'bit counters beyond the format limit (2^64 / 2^128 bits)'}
    run.assumptions += ['reference written from the SHA-3 final-round BLAKE document, validated against 7 published digests',
                        'induction over length: digest(m) = finalisation step from the state after the full blocks of m (C08 shows that state depends on m only)',
                        'LLVM back end and CPU trusted; panic=abort']


if __name__ == '__main__':
    main_wrap(body, 'C04')
