# C12 / C13 share one grid: (backend, vector type, operation[, element index]) -> equality with the scalar meaning
from common import *
from specs import vecref as V

BACKENDS = {'sse2': ('release-std', 'h_vec_sse2'), 'ssse3': ('release-std', 'h_vec_ssse3'), 'sse41': ('release-std', 'h_vec_sse41'),
            'avx': ('release-std', 'h_vec_avx'), 'avx2': ('release-std', 'h_vec_avx2'), 'generic': ('release-nosimd', 'h_vec_generic')}
DEV = {'release-std': 'devchk-std', 'release-nosimd': 'devchk-nosimd'}


def one(run, task):
    pid, backend, ty, op, idx, dev = task
    config, fname = BACKENDS[backend]
    if dev:
        config = DEV[config]
    mod = module(config, run)
    tname, w, n, eb = V.TYPES[ty]
    a, b, c, d = (T.var(x, 512) for x in 'abcd')
    args = [Sc('ty', 32, ty), Sc('op', 32, op), Buf('a', 64, init=a, writable=False), Buf('b', 64, init=b, writable=False),
            Buf('c', 64, init=c, writable=False), Buf('d', 64, init=d, writable=False), Sc('i', 32, idx), Buf('out', 256, init=T.var('out0', 2048))]
    t0 = time.time()
    res, ex = entry.run(mod, fname, args)
    run.exec_s += time.time() - t0
    run.note_functions(execu.demangle_hint(f) for f in ex.funcs_run)
    exp, nbytes = V.expected(ty, op, a, b, c, d, idx)
    opn = V.OPNAMES[op]
    name = '%s/%s/%s%s%s' % (backend, tname, opn, ('[%d]' % idx) if op in (40, 41) else '', '/devchk' if dev else '')
    key = '%s:%s:%s' % (backend, tname, opn)
    for r in res:
        if r.status != 'ret':
            st, model = check.pc_feasible(r.pc)
            ob = check.Obligation(name + '/returns')
            ob.n_pairs = 1
            ob.status = 'ok' if st == 'unsat' else st
            ob.detail = r.status + ' ' + r.detail
            run.add(ob)
            if st == 'sat':
                what = '%s %s::%s %s (%s)' % (backend, tname, opn, 'panics' if r.status.startswith('panic') else r.status, r.detail[:80])
                confirm(run, config, fname, args, model, key + ':panic', what, kind='fault')
            continue
        if not T.is_const(r.ret) or T.cval(r.ret) != 0:
            run.inconclusive.append(name + ': operation not reached (ret=%s)' % T.show(r.ret))
            continue
        got = r.mem(r.named['out'], 0, nbytes)
        rest = r.mem(r.named['out'], nbytes, 256 - nbytes)
        pairs = [(T.extract(got, 32 * k, 32), T.extract(exp, 32 * k, 32)) for k in range(nbytes // 4)]
        ob = run.equal(name, pairs, r.pc, timeout_s=60)
        if ob.status == 'sat':
            what = '%s %s::%s differs from its scalar meaning' % (backend, tname, opn)
            full_exp = T.concat([exp, T.extract(T.var('out0', 2048), 8 * nbytes, 2048 - 8 * nbytes)])
            confirm(run, config, fname, args, ob.model, key, what, exp={'out': full_exp})


def tasks_for(pid, tier):
    ops_c13 = V.C13_OPS
    out = []
    for backend in BACKENDS:
        for ty, ops in V.VOCAB.items():
            for op in ops:
                if (op in ops_c13) != (pid == 'C13'):
                    continue
                if backend == 'generic' and op in V.X86_ONLY_OPS:
                    continue    # the portable backend declares no conversions between its vector types
                idxs = range(V.nelems(ty)) if op in (40, 41) else [0]
                for i in idxs:
                    out.append((pid, backend, ty, op, i, False))
                    if tier == 'thorough' or backend == 'generic':
                        out.append((pid, backend, ty, op, i, True))
    return out


def chunk(run, ts):
    for t in ts:
        one(run, t)


def body_for(pid):
    def body(run, a):
        ts = tasks_for(pid, run.tier)
        for c in sorted({(DEV[BACKENDS[t[1]][0]] if t[5] else BACKENDS[t[1]][0]) for t in ts}):
            module(c, run)
        check.parallel(run, chunk, [ts[i:i + 25] for i in range(0, len(ts), 25)])
        # canary: a reference with a wrong rotation count / wrong lane order must be refuted
        canary(run, pid)
        run.bounds = {'operands': 'all values (512 symbolic bits per operand)', 'element index': 'every valid index (enumerated)',
                      'grid': '%d (backend, type, operation, index, profile) points: 6 backends x 10 vector types x the operations the Machine trait bounds require, plus the u128xN -> u32x4xN / u64x2xN From conversions of the 5 x86 machines' % len(ts),
                      'outside': 'operations not reachable through the Machine trait bounds (e.g. u128x1 bswap)'}
        run.assumptions += ['a vector value is identified with its little-endian storage bytes (From<[u32;4]> / new128 / unpack in, Into<storage> / split128 out)',
                            'word permutation names: shuffle1230 = [x3,x0,x1,x2], shuffle2301 = [x2,x3,x0,x1], shuffle3012 = [x1,x2,x3,x0] (the reading under which ChaCha/BLAKE conform, C01/C04)',
                            'x86 intrinsic models (pshufb, shifts, shuffles) as in llsym/intrin.py; LLVM back end and CPU trusted']
    return body


def canary(run, pid):
    mod = module('release-std', run)
    a, b, c, d = (T.var(x, 512) for x in 'abcd')
    ty, op = (0, 13) if pid == 'C12' else (7, 45)
    args = [Sc('ty', 32, ty), Sc('op', 32, op), Buf('a', 64, init=a, writable=False), Buf('b', 64, init=b, writable=False),
            Buf('c', 64, init=c, writable=False), Buf('d', 64, init=d, writable=False), Sc('i', 32, 0), Buf('out', 256, init=T.var('out0', 2048))]
    res, ex = entry.run(mod, 'h_vec_ssse3', args)
    r = [x for x in res if x.status == 'ret'][0]
    if pid == 'C12':
        bad = T.concat([T.rotr(x, 13) for x in V.words(T.extract(a, 0, 128), 32)])
        got = r.mem(r.named['out'], 0, 16)
        what = 'reference "rotate right 13" for rotate_each_word_right12 is refuted (sat)'
    else:
        rows = [V.words(x, 128) for x in (a, b, c, d)]
        bad = T.concat([T.concat([rows[k][j] for j in range(4)]) for k in range(4)])   # identity instead of transpose
        got = r.mem(r.named['out'], 0, 256)
        what = 'reference "no transpose" for transpose4 is refuted (sat)'
    st, model, dt = check.solve_neq([(got, bad)], r.pc, 60)
    run.canary(what, st == 'sat')
