#!/usr/bin/env python3-vt
# C20 - Every declared cargo feature combination builds, and features only select implementations.
# Clause 1 (builds): the encoder's build step must succeed for every point of each crate's declared feature lattice - a
# configuration that does not compile cannot be encoded, and that failure is the violation (the deciding tool for this clause
# is necessarily the compiler; stated). Clause 2 (same results): for the configurations that build, core entries are executed
# symbolically and proved equal across configurations (shared with C03 / C09): no_simd vs SIMD, std (run-time dispatch) vs
# no-std (compile-time dispatch), no_unroll vs unrolled.
import itertools
import subprocess
from common import *
import c03
import c09
import c10

CRATES = {  # crate: (path, declared features (without "default"))
    'blake-hash': ('hashes/blake', ['simd', 'std']),
    'groestl-aesni': ('hashes/groestl', ['std']),
    'jh-x86_64': ('hashes/jh', ['std']),
    'skein-hash': ('hashes/skein', []),
    'threefish-cipher': ('block-ciphers/threefish', ['no_unroll']),
    'c2-chacha': ('stream-ciphers/chacha', ['std', 'rustcrypto_api', 'no_simd', 'simd']),
    'ppv-lite86': ('utils-simd/ppv-lite86', ['std', 'simd', 'no_simd']),
    'ppv-null': ('utils-simd/ppv-null', []),
    'crypto-simd': ('utils-simd/crypto-simd', ['simd', 'std', 'packed_simd']),
}


def declared_features(path):
    """features declared in the crate's Cargo.toml (so that a newly declared feature is picked up)"""
    feats = []
    sec = None
    for line in open(os.path.join(build.REPO, path, 'Cargo.toml')):
        line = line.strip()
        if line.startswith('['):
            sec = line
            continue
        if sec == '[features]' and '=' in line:
            f = line.split('=')[0].strip()
            if f != 'default':
                feats.append(f)
    return feats


def build_point(crate, feats):
    env = dict(os.environ)
    env['CARGO_NET_OFFLINE'] = 'true'
    env['CARGO_TARGET_DIR'] = os.path.join(build.CACHE, 'build', 'lattice')
    cmd = ['cargo', 'build', '-p', crate, '--lib', '--offline', '--no-default-features']
    if feats:
        cmd += ['--features', ','.join(feats)]
    p = subprocess.run(cmd, cwd=build.REPO, env=env, stdout=subprocess.PIPE, stderr=subprocess.PIPE, text=True)
    err = ''
    if p.returncode != 0:
        for l in p.stderr.split('\n'):
            if l.startswith('error'):
                err = l[:160]
                break
    return p.returncode == 0, err


def body(run, a):
    points = []
    for crate, (path, _) in CRATES.items():
        feats = declared_features(path)
        for k in range(len(feats) + 1):
            for sub in itertools.combinations(feats, k):
                points.append((crate, list(sub)))
        # the default set as well
        points.append((crate, None))
    t0 = time.time()
    nfail = 0
    for crate, feats in points:
        if feats is None:
            env = dict(os.environ)
            env['CARGO_NET_OFFLINE'] = 'true'
            env['CARGO_TARGET_DIR'] = os.path.join(build.CACHE, 'build', 'lattice')
            p = subprocess.run(['cargo', 'build', '-p', crate, '--lib', '--offline'], cwd=build.REPO, env=env, stdout=subprocess.PIPE, stderr=subprocess.PIPE, text=True)
            ok, err = p.returncode == 0, (p.stderr.split('error')[1][:150] if p.returncode else '')
            fl = 'default'
        else:
            ok, err = build_point(crate, feats)
            fl = ','.join(feats) or '(none)'
        ob = check.Obligation('builds/%s[%s]' % (crate, fl))
        ob.n_pairs = 1
        ob.status = 'ok' if ok else 'sat'
        ob.detail = err
        run.add(ob)
        if not ok:
            nfail += 1
            # role-based key: crate + the feature whose absence / presence breaks the build
            if crate == 'blake-hash' and feats is not None and 'simd' not in feats:
                key = 'build:blake-hash:without-simd'
            elif crate == 'groestl-aesni' and feats is not None and 'std' not in feats:
                key = 'build:groestl-aesni:without-std'
            elif crate == 'crypto-simd' and feats is not None and 'packed_simd' in feats:
                key = 'build:crypto-simd:packed_simd'
            else:
                key = 'build:%s:%s' % (crate, fl)
            path = run.write_replay(key, {'kind': 'build', 'crate': crate, 'features': feats, 'cmd': 'cd /repo && cargo build -p %s --lib --offline --no-default-features%s' % (crate, (' --features ' + ','.join(feats)) if feats else ''), 'first_error': err})
            run.violation(key, '%s does not build with features [%s]: %s' % (crate, fl, err), path)
    run.extra['lattice_points'] = len(points)
    run.extra['lattice_build_s'] = round(time.time() - t0, 1)
    # clause 2: results do not depend on the configuration
    configs = ['release-std', 'release-nosimd', 'release-nostd-sse2']
    for c in configs + ['release-nounroll']:
        module(c, run)
    n = len(c03.entries(run.tier))
    sel = [i for i, e in enumerate(c03.entries(run.tier)) if e[0] in ('chacha:refill4:dr=10', 'chacha:refill1:dr=4', 'chacha:ietf:seek+apply', 'blake256:update+finalize', 'blake512:update+finalize')]
    check.parallel(run, c03.one, [(i, configs) for i in sel])
    check.parallel(run, c09.case, [(c, b) for c in ('release-std', 'release-nounroll') for b in (256, 512, 1024)])
    check.parallel(run, c10.case, [(c, b, o) for c in ('release-std', 'release-nounroll') for b in (256, 512, 1024) for o in ('encdec', 'decenc')])
    run.canary('the lattice enumeration covers every declared feature of every crate (%d points)' % len(points), len(points) >= 40)
    run.bounds = {'lattice': '%d points = power set of the declared features of each of the 9 crates + the default set' % len(points),
                  'toolchain / target': 'pinned stable toolchain, x86_64-unknown-linux-gnu', 'clause 2 entries': [c03.entries(run.tier)[i][0] for i in sel] + ['threefish 256/512/1024 encryption and both round trips, unrolled vs no_unroll'],
                  'outside': 'other targets; features of dependencies outside the workspace'}
    run.assumptions += ['clause 1 is decided by rustc (a configuration that does not compile cannot be encoded); clause 2 by symbolic execution + z3 as in C03/C09']


if __name__ == '__main__':
    main_wrap(body, 'C20')
