#!/usr/bin/env python3-vt
# C08 - Incremental hashing is invariant under chunking, cloning and reset (15 hash types).
# The compression functions are SUMMARISED as uninterpreted functions (BLAKE put_block, Groestl input/output transformation,
# JH f8; Skein runs its real Threefish, which is cheap), so a digest term spells out the exact sequence of compression calls
# with their block bytes and counters. Equality of the term produced by three updates / a clone / a reset-and-reuse with the
# term of the one-shot hash - for symbolic message bytes and every enumerated cut position - is the statement that the state
# after any partition is a function of the message alone.
import re
from common import *

TYPES = {  # name: (block bytes, digest bytes, family)
    'blake224': (64, 28, 'blake'), 'blake256': (64, 32, 'blake'), 'blake384': (128, 48, 'blake'), 'blake512': (128, 64, 'blake'),
    'groestl224': (64, 28, 'groestl'), 'groestl256': (64, 32, 'groestl'), 'groestl384': (128, 48, 'groestl'), 'groestl512': (128, 64, 'groestl'),
    'jh224': (64, 28, 'jh'), 'jh256': (64, 32, 'jh'), 'jh384': (64, 48, 'jh'), 'jh512': (64, 64, 'jh'),
    'skein256_32': (32, 32, 'skein'), 'skein512_64': (64, 64, 'skein'), 'skein1024_128': (128, 128, 'skein'),
}


def blake_summary(wbits):
    def f(ex, name, args):
        st, blk, t0, t1 = args
        hb = wbits // 8
        o, off = ex.access(st, hb, 16, True)
        h = ex.read_bytes(o, off, hb)
        d, doff = ex.access(blk, 2 * hb, 1, False)
        m = ex.read_bytes(d, doff, 2 * hb)
        ex.write_bits(o, off, T.uf('blake%d_compress' % wbits, 8 * hb, (h, m, t0, t1)))
        ex.stats['summaries'] = ex.stats.get('summaries', 0) + 1
    return f


def groestl_input(nbytes):
    def f(ex, name, args):
        cvp, data = args
        o, off = ex.access(cvp, nbytes, 16, True)
        cv = ex.read_bytes(o, off, nbytes)
        d, doff = ex.access(data, nbytes, 1, False)
        m = ex.read_bytes(d, doff, nbytes)
        ex.write_bits(o, off, T.uf('groestl_tf%d' % (8 * nbytes), 8 * nbytes, (cv, m)))
        ex.stats['summaries'] = ex.stats.get('summaries', 0) + 1
    return f


def groestl_of(nbytes):
    def f(ex, name, args):
        cvp = args[0]
        o, off = ex.access(cvp, nbytes, 16, True)
        cv = ex.read_bytes(o, off, nbytes)
        ex.write_bits(o, off, T.uf('groestl_of%d' % (8 * nbytes), 8 * nbytes, (cv,)))
        ex.stats['summaries'] = ex.stats.get('summaries', 0) + 1
    return f


def jh_f8(ex, name, args):
    st, data = args
    o, off = ex.access(st, 128, 16, True)
    state = ex.read_bytes(o, off, 128)
    d, doff = ex.access(data, 64, 1, False)
    blk = ex.read_bytes(d, doff, 64)
    ex.write_bits(o, off, T.uf('jh_f8', 1024, (state, blk)))
    ex.stats['summaries'] = ex.stats.get('summaries', 0) + 1


SUMMARIES = [
    (re.compile(r'blake_hash13Compressor2569put_block9put_block17h[0-9a-f]{16}E$'), blake_summary(256)),
    (re.compile(r'blake_hash13Compressor5129put_block9put_block17h[0-9a-f]{16}E$'), blake_summary(512)),
    (re.compile(r'groestl_aesni10compressor\d+(aes|ssse3|sse2)\d+tf51217h[0-9a-f]{16}E$'), groestl_input(64)),
    (re.compile(r'groestl_aesni10compressor\d+(aes|ssse3|sse2)\d+tf102417h[0-9a-f]{16}E$'), groestl_input(128)),
    (re.compile(r'groestl_aesni10compressor\d+(aes|ssse3|sse2)\d+of51217h[0-9a-f]{16}E$'), groestl_of(64)),
    (re.compile(r'groestl_aesni10compressor\d+(aes|ssse3|sse2)\d+of102417h[0-9a-f]{16}E$'), groestl_of(128)),
    (re.compile(r'jh_x86_6410compressor2f817h[0-9a-f]{16}E$'), jh_f8),
]


def runs(mod, fname, args):
    ex = entry.default_exec(mod)
    ex.summary_res.extend(SUMMARIES)
    return entry.run(mod, fname, args, ex=ex)


def by_pc(res):
    """paths keyed by their decisions on the CPU-feature word (to pair the runs of two entries)"""
    out = {}
    for r in res:
        out[arm_name(r.pc)] = r
    return out


def case(run, task):
    config, ty, L, c1, c2 = task
    bs, dn, fam = TYPES[ty]
    mod = module(config, run)
    msg = T.var('msg', 8 * L)
    junk = T.var('junk', 8 * max(c1, 1))
    o0 = [T.var('o%d' % i, 4096) for i in range(3)]
    t0 = time.time()
    one, ex0 = runs(mod, 'h_' + ty, [Buf('msg', L, init=msg, writable=False), Sc('len', 64, L), Buf('out', 512, init=o0[0])])
    pre, ex1 = runs(mod, 'h_' + ty, [Buf('msg', c1, init=T.extract(msg, 0, 8 * c1), writable=False), Sc('len', 64, c1), Buf('out', 512, init=o0[0])])
    sp, ex2 = runs(mod, 'h_%s_split' % ty, [Buf('msg', L, init=msg, writable=False), Sc('len', 64, L), Sc('c1', 64, c1), Sc('c2', 64, c2), Buf('out', 512, init=o0[0])])
    cl, ex3 = runs(mod, 'h_%s_clone' % ty, [Buf('msg', L, init=msg, writable=False), Sc('len', 64, L), Sc('c1', 64, c1),
                                             Buf('out1', 512, init=o0[0]), Buf('out2', 512, init=o0[1]), Buf('out3', 512, init=o0[2])])
    ru, ex4 = runs(mod, 'h_%s_reuse' % ty, [Buf('msg', L, init=msg, writable=False), Sc('len', 64, L), Buf('junk', max(c1, 1), init=junk, writable=False), Sc('c1', 64, c1),
                                             Buf('out1', 512, init=o0[0]), Buf('out2', 512, init=o0[1]), Buf('out3', 512, init=o0[2])])
    run.exec_s += time.time() - t0
    for e_ in (ex0, ex2, ex3, ex4):
        run.note_functions(execu.demangle_hint(f) for f in e_.funcs_run)
        run.extra['summarised_calls'] = run.extra.get('summarised_calls', 0) + e_.stats.get('summaries', 0)
    ref = by_pc([r for r in one if r.status == 'ret'])
    refpre = by_pc([r for r in pre if r.status == 'ret'])
    if not ref:
        run.inconclusive.append('%s: one-shot hash did not return (L=%d)' % (ty, L))
        return
    base = '%s/%s/L=%d/c1=%d/c2=%d' % (ty, config, L, c1, c2)

    def digest_of(r, name):
        return r.mem(r.named[name], 0, dn)

    def pick(d, arm):
        return d.get(arm) or list(d.values())[0]
    for kind, res, outs in (('three-updates', sp, [('out', None)]), ('clone', cl, [('out1', None), ('out2', None), ('out3', 'prefix')]), ('reset/finalize_reset', ru, [('out1', None), ('out2', None), ('out3', None)])):
        for r in res:
            arm = arm_name(r.pc)
            name = base + '/' + kind + '/arm[%s]' % arm
            if r.status != 'ret':
                st, model = check.pc_feasible(r.pc)
                ob = check.Obligation(name + '/returns')
                ob.n_pairs = 1
                ob.status = 'ok' if st == 'unsat' else st
                ob.detail = r.status + ' ' + r.detail
                run.add(ob)
                if st == 'sat' and not (fam == 'groestl' and model.get('cpu', 0) & (1 << 6) == 0):
                    run.violation('%s:%s:%s' % (ty, kind, r.status.split(':')[0]), '%s %s: %s %s' % (ty, kind, r.status, r.detail[:80]), None)
                continue
            pairs = []
            for oname, which in outs:
                expd = digest_of(pick(refpre if which else ref, arm), 'out')
                pairs.append((digest_of(r, oname), expd))
            ob = run.equal(name, pairs, r.pc, timeout_s=60)
            if ob.status == 'sat':
                confirm_native(run, config, ty, kind, L, c1, c2, ob.model)


def confirm_native(run, config, ty, kind, L, c1, c2, model):
    """the model is over an uninterpreted compression function; replay natively with the model's message bytes"""
    bs, dn, fam = TYPES[ty]
    ev = T.Evaluator(model)
    msg = ev.val(T.var('msg', 8 * L)).to_bytes(L, 'little') if L else b''
    junk = ev.val(T.var('junk', 8 * max(c1, 1))).to_bytes(max(c1, 1), 'little')
    prof, feats = profile_of(config)
    z = '00' * 512

    def nat(fn, a):
        b = entry.replay_bin(prof, feats)
        import subprocess
        p = subprocess.run([b, fn] + a, stdout=subprocess.PIPE, stderr=subprocess.PIPE, text=True)
        return [l for l in p.stdout.split('\n') if l and not l.startswith('ret=')], p.returncode
    one, rc0 = nat('h_' + ty, [msg.hex(), '%x' % L, z])
    pre, rc0 = nat('h_' + ty, [msg[:c1].hex(), '%x' % c1, z])
    bad = None
    if kind == 'three-updates':
        o, rc = nat('h_%s_split' % ty, [msg.hex(), '%x' % L, '%x' % c1, '%x' % c2, z])
        bad = rc != 0 or o[0][:2 * dn] != one[0][:2 * dn]
    elif kind == 'clone':
        o, rc = nat('h_%s_clone' % ty, [msg.hex(), '%x' % L, '%x' % c1, z, z, z])
        bad = rc != 0 or o[0][:2 * dn] != one[0][:2 * dn] or o[1][:2 * dn] != one[0][:2 * dn] or o[2][:2 * dn] != pre[0][:2 * dn]
    else:
        o, rc = nat('h_%s_reuse' % ty, [msg.hex(), '%x' % L, junk.hex(), '%x' % c1, z, z, z])
        bad = rc != 0 or any(o[i][:2 * dn] != one[0][:2 * dn] for i in range(3))
    key = '%s:%s' % (ty, kind)
    what = '%s: %s gives a different digest than hashing in one call [L=%d c1=%d c2=%d]' % (ty, kind, L, c1, c2)
    if bad:
        run.violation(key, what, run.write_replay(key + what, {'type': ty, 'kind': kind, 'msg': msg.hex(), 'c1': c1, 'c2': c2, 'junk': junk.hex(), 'profile': prof}))
    else:
        run.inconclusive.append('counterexample not reproduced natively: ' + what)


def rst_args(ty, p, n, msg, pre, o0):
    """arguments of h_<ty>_rst: an ARBITRARY internal state (hooks) with p bytes buffered, then reset and hash msg"""
    bs, dn, fam = TYPES[ty]
    tail = [Buf('prefill', p, init=pre, writable=False), Sc('p', 64, p), Buf('msg', n, init=msg, writable=False), Sc('len', 64, n),
            Buf('out1', 512, init=o0[0]), Buf('out2', 512, init=o0[1]), Buf('out3', 512, init=o0[2])]
    if fam == 'blake':
        w = 32 if bs == 64 else 64
        return [Buf('h', w, init=T.var('h', 8 * w), writable=False), Sc('t0', 64, T.zext(T.var('t0', w), 64)), Sc('t1', 64, T.zext(T.var('t1', w), 64))] + tail, ['h', 't0', 't1']
    if fam == 'skein':
        return [Buf('x', bs, init=T.var('x', 8 * bs), writable=False), Sc('t0', 64, T.var('t0', 64)), Sc('t1', 64, T.var('t1', 64))] + tail, ['x', 't0', 't1']
    if fam == 'groestl':
        return [Buf('cv', bs, init=T.var('cv', 8 * bs), writable=False), Sc('counter', 64, T.var('cnt', 64))] + tail, ['cv', 'cnt']
    return [Buf('state', 128, init=T.var('h', 1024), writable=False), Sc('datalen', 64, T.var('datalen', 64))] + tail, ['h', 'datalen']


def rst_case(run, task):
    """reset / finalize_reset / in-place finalize_fixed_reset from an arbitrary (chaining value, counters, p buffered bytes):
    the instance must then hash msg exactly like a new one"""
    config, ty, p, n = task
    bs, dn, fam = TYPES[ty]
    mod = module(config, run)
    msg, pre = T.var('msg', 8 * n), T.var('pre', 8 * p)
    o0 = [T.var('o%d' % i, 4096) for i in range(3)]
    t0 = time.time()
    one, ex0 = runs(mod, 'h_' + ty, [Buf('msg', n, init=msg, writable=False), Sc('len', 64, n), Buf('out', 512, init=o0[0])])
    args, svars = rst_args(ty, p, n, msg, pre, o0)
    res, ex1 = runs(mod, 'h_%s_rst' % ty, args)
    run.exec_s += time.time() - t0
    run.note_functions(execu.demangle_hint(f) for f in ex1.funcs_run)
    run.extra['summarised_calls'] = run.extra.get('summarised_calls', 0) + ex1.stats.get('summaries', 0)
    ref = by_pc([r for r in one if r.status == 'ret'])
    if not ref:
        run.inconclusive.append('%s: one-shot hash did not return (n=%d)' % (ty, n))
        return
    base = '%s/%s/reset-from-arbitrary-state/p=%d/n=%d' % (ty, config, p, n)
    nret = 0
    for r in res:
        arm = arm_name(r.pc)
        if r.status != 'ret':
            # an arbitrary state need not be reachable, so a panic from it is not by itself a violation; reachable states are the
            # subject of the reset/finalize_reset cases above. Counted in the evidence.
            run.extra['rst_paths_not_returning'] = run.extra.get('rst_paths_not_returning', 0) + 1
            continue
        nret += 1
        expd = r_digest(ref.get(arm) or list(ref.values())[0], 'out', dn)
        pairs = [(r_digest(r, o, dn), expd) for o in ('out1', 'out2', 'out3')]
        ob = run.equal(base + '/arm[%s]' % arm, pairs, r.pc, timeout_s=60)
        if ob.status == 'sat':
            confirm_rst(run, config, ty, p, n, args, svars, ob.model)
    if not nret:
        run.inconclusive.append(base + ': no returning path')


def r_digest(r, name, dn):
    return r.mem(r.named[name], 0, dn)


def confirm_rst(run, config, ty, p, n, args, svars, model):
    bs, dn, fam = TYPES[ty]
    prof, feats = profile_of(config)
    ah = entry.arg_hex(args, model)
    import subprocess
    b = entry.replay_bin(prof, feats)

    def nat(fn, a):
        q = subprocess.run([b, fn] + a, stdout=subprocess.PIPE, stderr=subprocess.PIPE, text=True)
        return [l for l in q.stdout.split('\n') if l and not l.startswith('ret=')], q.returncode
    ev = T.Evaluator(model)
    msg = ev.val(T.var('msg', 8 * n)).to_bytes(n, 'little') if n else b''
    one, rc0 = nat('h_' + ty, [msg.hex(), '%x' % n, '00' * 512])
    o, rc = nat('h_%s_rst' % ty, ah)
    which = [k for k, i in (('reset', 0), ('finalize_reset', 1), ('finalize_fixed_reset', 2)) if rc != 0 or o[i][:2 * dn] != one[0][:2 * dn]]
    key = '%s:reset-from-state' % ty
    what = '%s: %s from a state with non-trivial counters / chaining value does not restore a new instance [p=%d n=%d state: %s]' % (
        ty, '/'.join(which) or '?', p, n, ', '.join('%s=%#x' % (v, model.get(v, 0)) for v in svars if v in ('t0', 't1', 'cnt', 'datalen')))
    if which:
        run.violation(key, what, run.write_replay(key + what, {'type': ty, 'kind': 'reset-from-state', 'entry': 'h_%s_rst' % ty, 'args': ah, 'profile': prof}))
    else:
        run.inconclusive.append('counterexample not reproduced natively: ' + what)


def rst_chunk(run, ts):
    for t in ts:
        rst_case(run, t)


def cuts_for(bs, tier, fam=''):
    """(L, c1, c2): piece lengths 0, 1, block-1, block, block+1, many blocks at buffer fills p"""
    out = set()
    ps = (0, 1, bs - 1) if tier == 'quick' else range(bs)
    for p in ps:
        for mid in (0, 1, bs - p - 1, bs - p, bs - p + 1, bs, bs + 1, 2 * bs - p, 2 * bs, 3 * bs + 1):
            if mid < 0:
                continue
            for tail in (0, 5):
                out.add((p + mid + tail, p, p + mid))
    if tier == 'quick':
        out = {x for x in out if x[0] <= 3 * bs + bs + 6}
    # one LONG piece (a "bulk" path taken only by large slices must frame the blocks like the ordinary one): the piece ends
    # exactly on a block boundary / one byte past it, with and without buffered bytes before it
    for p in (0, 1, bs - 1):
        for big in (((512 // bs,) if tier == 'quick' else (256 // bs, 512 // bs, 1024 // bs)) if fam != 'skein' else ((3,) if tier == 'quick' else (3, 4))):
            out.add((big * bs, p, big * bs))
            out.add((big * bs + 1 + p, p, big * bs + 1))
            out.add((p + big * bs + 7, p, p + big * bs))
    # cut points AFTER whole blocks have been compressed (clone / reset of a state whose counters are non-zero)
    for c1 in ((bs, bs + 1, 2 * bs + 1) if tier == 'quick' else (bs, bs + 1, 2 * bs - 1, 2 * bs, 2 * bs + 1, 3 * bs + 1)):
        out.add((c1 + bs + 2, c1, c1 + 1))
        out.add((c1, c1, c1))
    return sorted(out)


def chunk(run, ts):
    for t in ts:
        case(run, t)


def body(run, a):
    config = 'release-std'
    module(config, run)
    tasks = []
    for ty, (bs, dn, fam) in TYPES.items():
        for (L, c1, c2) in cuts_for(bs, run.tier, fam):
            tasks.append((config, ty, L, c1, c2))
    check.parallel(run, chunk, [tasks[i:i + 6] for i in range(0, len(tasks), 6)])
    rtasks = []
    for ty, (bs, dn, fam) in TYPES.items():
        for p in ((0, 1, bs - 1) if run.tier == 'quick' else (0, 1, 7, bs // 2, bs - 9, bs - 8, bs - 1)):
            for n in ((0, 1, bs + 1) if run.tier == 'quick' else (0, 1, bs - 1, bs, bs + 1, 2 * bs + 3)):
                rtasks.append((config, ty, p, n))
    check.parallel(run, rst_chunk, [rtasks[i:i + 5] for i in range(0, len(rtasks), 5)])
    # canary: dropping the middle piece must change the digest term (the comparison is not vacuous)
    mod = module(config, run)
    L = 70
    msg = T.var('msg', 8 * L)
    o0 = T.var('o0', 4096)
    one, _ = runs(mod, 'h_blake256', [Buf('msg', L, init=msg, writable=False), Sc('len', 64, L), Buf('out', 512, init=o0)])
    two, _ = runs(mod, 'h_blake256', [Buf('msg', L - 1, init=T.extract(msg, 0, 8 * (L - 1)), writable=False), Sc('len', 64, L - 1), Buf('out', 512, init=o0)])
    a_ = [r for r in one if r.status == 'ret'][0]
    b_ = [r for r in two if r.status == 'ret'][0]
    st, model, dt = check.solve_neq([(a_.mem(a_.named['out'], 0, 32), b_.mem(b_.named['out'], 0, 32))], (), 30)
    run.canary('digest terms of two different messages are distinguished (uninterpreted compression does not collapse them)', st == 'sat')
    run.bounds = {'types': sorted(TYPES), 'piece lengths': '0, 1, block-p-1, block-p, block-p+1, block, block+1, 2*block-p, 2*block, 3*block+1 followed by a tail of 0 or 5 bytes; long pieces of 512 bytes (thorough: 256, 512, 1024 bytes; Skein: 3 (3, 4) blocks, real Threefish core) ending on / just past a block boundary after p buffered bytes',
                  'buffer fill p before the piece': '0, 1, block-1 (quick) / all (thorough)', 'message bytes': 'symbolic', 'cases': len(tasks),
                  'operations': 'three updates; clone at c1 (original, clone, and a second clone that must not see later updates); reset and finalize_reset after junk; reset / finalize_reset / finalize_fixed_reset from an ARBITRARY internal state (chaining value and all counters symbolic, p bytes buffered) followed by update(n bytes)',
                  'reset-from-state cases': len(rtasks),
                  'outside': 'other piece lengths; longer histories (each history is a composition of these steps from a state that C08 shows to depend on the absorbed message only)'}
    run.assumptions += ['compression functions are uninterpreted (BLAKE put_block, Groestl input / output transformation, JH f8); their conformance is C04/C06/C07',
                        'Skein runs its real Threefish core', 'LLVM back end and CPU trusted; panic=abort']


if __name__ == '__main__':
    main_wrap(body, 'C08')
