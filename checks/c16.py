#!/usr/bin/env python3-vt
# C16 - Byte-slice APIs are alignment-independent and stay inside their buffers.
# A memory-access monitor is active in every llsym execution: each caller slice is its own memory object with EXACT bounds and
# guaranteed alignment 1, and its base address is a free symbolic variable. For every executed load / store / memcpy the
# monitor checks (i) the byte range lies inside one live object (an out-of-range access is what would fault next to an unmapped
# page), (ii) the access's declared alignment is implied by the object's guaranteed alignment and the offset (an `align 16`
# access to caller bytes faults or misbehaves for some address), (iii) the result terms do not mention any base-address
# variable (so the result cannot depend on the address). This check runs the byte-slice entry points of every algorithm on
# every backend arm and reports the monitor's findings; inputs (data, keys, lengths in the stated set) are symbolic.
from common import *
from specs import vecref as V


def cases(tier):
    c = []
    key = lambda: Buf('key', 32, sym=True, writable=False)
    # ChaCha keystream application (buffered prefix, wide chunks, tail)
    for alias, nb in (('chacha20', 8), ('ietf', 12), ('xchacha12', 24)):
        for o, L in ((0, 0), (1, 63), (63, 65), (5, 300)) if tier == 'quick' else [(o, L) for o in (0, 1, 37, 63) for L in (0, 1, 63, 64, 65, 255, 256, 257, 300, 600)]:
            pos = T.concat([T.const(o, 6), T.var('B', 32), T.const(0, 26)])
            c.append(('chacha:%s:o=%d:L=%d' % (alias, o, L), ['release-std', 'release-nosimd'], 'h_c01_' + alias,
                      lambda nb=nb, pos=pos, L=L: [key(), Buf('nonce', nb, sym=True, writable=False), Sc('pos', 64, pos), Buf('data', L, sym=True), Sc('len', 64, L)], ['data']))
    # hashes: update + finalize through the Digest API (message slice with exact bounds)
    hl = {'blake256': (64, 32), 'blake512': (128, 64), 'groestl256': (64, 32), 'groestl512': (128, 64), 'jh256': (64, 32), 'skein512_64': (64, 64), 'skein1024_128': (128, 128)}
    for h, (bs, dn) in hl.items():
        for L in ((0, 1, bs - 1, bs + 1) if tier == 'quick' else (0, 1, 7, bs - 9, bs - 1, bs, bs + 1, 2 * bs + 3)):
            cfgs = ['release-std'] + (['release-nosimd'] if h.startswith('blake') or h.startswith('jh') else [])
            c.append(('hash:%s:L=%d' % (h, L), cfgs, 'h_' + h, lambda L=L: [Buf('msg', L, sym=True, writable=False), Sc('len', 64, L), Buf('out', 512, init=T.var('out0', 4096))], ['out']))
    # JH / Groestl compression read the block through raw pointers
    c.append(('jh:f8', ['release-std', 'release-nosimd'], 'h_jh_f8', lambda: [Buf('state', 128, sym=True), Buf('block', 64, sym=True, writable=False)], ['state']))
    # Threefish block encrypt / decrypt
    for bits in (256, 512, 1024):
        for d in ('enc', 'dec'):
            c.append(('threefish%d:%s' % (bits, d), ['release-std'], 'h_tf%d_%s' % (bits, d),
                      lambda bits=bits: [Buf('key', bits // 8, sym=True, writable=False), Sc('t0', 64), Sc('t1', 64), Buf('block', bits // 8, sym=True)], ['block']))
    return c


VEC_BACKENDS = {'sse2': ('release-std', 'h_vec_sse2'), 'ssse3': ('release-std', 'h_vec_ssse3'), 'sse41': ('release-std', 'h_vec_sse41'),
                'avx': ('release-std', 'h_vec_avx'), 'avx2': ('release-std', 'h_vec_avx2'), 'generic': ('release-nosimd', 'h_vec_generic')}


def vec_cases():
    out = []
    for backend, (config, fname) in VEC_BACKENDS.items():
        for ty in (0, 3, 4, 5, 7):
            for op in (50, 51, 52, 53):
                out.append(('vec:%s:%s:%s' % (backend, V.TYPES[ty][0], V.OPNAMES[op]), [config], fname,
                            lambda ty=ty, op=op: [Sc('ty', 32, ty), Sc('op', 32, op), Buf('a', 64, sym=True, writable=False), Buf('b', 64, sym=True, writable=False),
                                                  Buf('c', 64, sym=True, writable=False), Buf('d', 64, sym=True, writable=False), Sc('i', 32, 0), Buf('out', 256, init=T.var('out0', 2048))], ['out']))
    return out


VECIO = {'sse2': ('release-std', 'h_vecio_sse2'), 'ssse3': ('release-std', 'h_vecio_ssse3'), 'sse41': ('release-std', 'h_vecio_sse41'),
         'avx': ('release-std', 'h_vecio_avx'), 'avx2': ('release-std', 'h_vecio_avx2'), 'generic': ('release-nosimd', 'h_vecio_generic')}
VSIZE = {0: 16, 3: 32, 4: 32, 5: 32, 7: 64}


def vecio_cases(tier):
    """Machine::read_le / read_be and write_le / write_be handed a slice whose length is NOT the vector size: the slice object has
    exactly `len` bytes, so an access that trusts the vector size instead of the slice is an out-of-bounds access"""
    out = []
    for backend, (config, fname) in VECIO.items():
        for ty, size in VSIZE.items():
            for op in (50, 51, 52, 53):
                lens = (size - 1, size, size + 1) if tier == 'quick' else (0, 1, size // 2, size - 1, size, size + 1, 2 * size)
                for ln in lens:
                    out.append(('vecio:%s:%s:%s:len=%d' % (backend, V.TYPES[ty][0], V.OPNAMES[op], ln), [config], fname,
                                lambda ty=ty, op=op, ln=ln: [Sc('ty', 32, ty), Sc('op', 32, op), Buf('a', 64, sym=True, writable=False), Buf('p', ln, sym=True), Sc('len', 64, ln),
                                                             Buf('out', 64, init=T.var('out0', 512))], ['out', 'p']))
    return out


def one(run, task):
    name, configs, fname, mkargs, outs = task
    for config in configs:
        mod = module(config, run)
        args = mkargs()
        ex = entry.default_exec(mod)
        ex.access_log = set()
        ex.share_threshold = 24       # outputs are only inspected for their support, never compared: keep terms small
        t0 = time.time()
        res, ex = entry.run(mod, fname, args, ex=ex)
        run.exec_s += time.time() - t0
        run.note_functions(execu.demangle_hint(f) for f in ex.funcs_run)
        run.extra['memory_accesses_checked'] = run.extra.get('memory_accesses_checked', 0) + ex.stats['loads'] + ex.stats['stores']
        base = '%s/%s' % (name, config)
        # (i) bounds / liveness / read-only
        for r in res:
            oname = base + '/arm[%s]' % arm_name(r.pc)
            if r.status.startswith('memerr'):
                st, model = check.pc_feasible(r.pc)
                ob = check.Obligation(oname + '/in-bounds')
                ob.n_pairs = 1
                ob.status = 'ok' if st == 'unsat' else st
                ob.detail = r.status + ' ' + r.detail
                run.add(ob)
                if st == 'sat':
                    key = 'mem:%s:%s' % (name.split(':')[0] + ':' + name.split(':')[1], r.status.split(':')[1])
                    what = '%s: %s (%s)' % (name, r.status, r.detail[:140])
                    # natively an out-of-slice access is silent unless it crosses a page: replay under the encoding's verdict
                    path = run.write_replay(key + what, {'entry': fname, 'config': config, 'args': entry.arg_hex(args, model), 'kind': 'memory', 'detail': r.detail})
                    run.violation(key, what, path)
                continue
            ob = check.Obligation(oname + '/in-bounds')
            ob.n_pairs = 1
            ob.status = 'ok'
            run.add(ob)
            if r.status != 'ret':
                # a panic / abort that is taken or not depending on a buffer ADDRESS is a result that depends on alignment
                bad = sorted(n for n in T.support([c for c, v in r.pc])[0] if n.startswith('base:'))
                if bad:
                    st, model = check.pc_feasible(r.pc)
                    ob = check.Obligation(oname + '/no-address-dependent-failure')
                    ob.n_pairs = 1
                    ob.status = 'ok' if st == 'unsat' else st
                    ob.detail = r.status + ' ' + r.detail
                    run.add(ob)
                    if st == 'sat':
                        what = '%s: %s is reached or not depending on the address of a caller buffer (%s = %#x): %s' % (name, r.status.split(':')[0], bad[0], model.get(bad[0], 0), r.detail[:120])
                        run.violation('addr-fail:%s' % ':'.join(name.split(':')[:2]), what, run.write_replay('addrfail' + what, {'entry': fname, 'config': config, 'kind': 'address-dependent failure',
                                      'path_condition': [(T.show(c)[:200], v) for c, v in r.pc], 'model': {k: hex(v) for k, v in model.items()}}))
                continue
            # (iii) address independence: no base-address variable in any output
            for o in outs:
                names, _ = T.support([r.mem(r.named[o])])
                bad = [n for n in names if n.startswith('base:')]
                ob = check.Obligation(oname + '/address-independent[%s]' % o)
                ob.n_pairs = 1
                ob.status = 'ok' if not bad else 'sat'
                run.add(ob)
                if bad:
                    run.violation('addr:%s' % name, '%s: the result depends on a buffer address (%s)' % (name, bad[:2]), None)
        # (iii-b) paths that differ only in conditions on buffer addresses must produce the same outputs
        groups = {}
        for r in res:
            if r.status == 'ret':
                k = tuple((c, v) for c, v in r.pc if not any(n.startswith('base:') for n in T.support([c])[0]))
                groups.setdefault(k, []).append(r)
        for k, rs in groups.items():
            if len(rs) < 2:
                continue
            run.extra['address_dependent_branch_groups'] = run.extra.get('address_dependent_branch_groups', 0) + 1
            for r2 in rs[1:]:
                pairs = [(rs[0].mem(rs[0].named[o]), r2.mem(r2.named[o])) for o in outs]
                ob = run.equal(base + '/arm[%s]/same-result-on-address-dependent-paths' % arm_name(r2.pc), pairs, list(k))
                if ob.status == 'sat':
                    run.violation('addr:%s' % name, '%s: two paths selected by a buffer address give different results' % name, None)
        # (ii) declared alignment vs guaranteed alignment of caller buffers
        issues = [i for i in ex.align_issues if not i[2].startswith('alloca:') and not i[2].startswith('g:')]
        ob = check.Obligation(base + '/alignment-of-accesses-to-caller-buffers')
        ob.n_pairs = 1
        ob.status = 'ok' if not issues else 'sat'
        run.add(ob)
        if issues:
            fn, text, objname, al, g, off = issues[0]
            what = '%s: access with declared alignment %d to caller buffer `%s` (guaranteed alignment %d, offset %d) in %s: %s' % (name, al, objname, g, off, execu.demangle_hint(fn)[-60:], text[:80])
            run.violation('align:%s:%s' % (name.split(':')[0], objname), what, run.write_replay('align' + what, {'entry': fname, 'config': config, 'issue': [str(x) for x in issues[0]]}))
        issues2 = [i for i in ex.align_issues if i[2].startswith('alloca:') or i[2].startswith('g:')]
        if issues2:
            run.extra['misaligned_internal_accesses'] = run.extra.get('misaligned_internal_accesses', 0) + len(issues2)


def chunk(run, ts):
    for t in ts:
        one(run, t)


def body(run, a):
    ts = cases(run.tier) + vec_cases() + vecio_cases(run.tier)
    for c in ('release-std', 'release-nosimd'):
        module(c, run)
    # closures are not picklable: run in-process chunks through fork by indexing
    global _TASKS
    _TASKS = ts
    nheavy = len(cases(run.tier))
    chunks = [list(range(i, min(i + 6, nheavy))) for i in range(0, nheavy, 6)] + [list(range(i, min(i + 24, len(ts)))) for i in range(nheavy, len(ts), 24)]
    check.parallel(run, by_index, chunks)
    # canary: the monitor must flag an out-of-bounds access - run an entry with a data object that is one byte too short
    mod = module('release-std', run)
    L = 65
    args = [Buf('key', 32, sym=True, writable=False), Buf('nonce', 8, sym=True, writable=False), Sc('pos', 64, T.concat([T.const(1, 6), T.var('B', 32), T.const(0, 26)])),
            Buf('data', L - 1, sym=True), Sc('len', 64, L)]
    res, ex = entry.run(mod, 'h_c01_chacha20', args)
    run.canary('a slice object one byte shorter than the declared length makes the monitor report an out-of-bounds access', any(r.status.startswith('memerr') for r in res))
    run.bounds = {'entries': '%d (algorithm, length / offset, backend build) cases; every dispatcher arm of each' % len(ts), 'data / keys': 'symbolic',
                  'addresses': 'every object base is a free 64-bit variable (release IR)', 'outside': 'lengths other than the enumerated ones (the access pattern is a function of the length)'}
    run.assumptions += ['objects do not overlap and cross-object pointer order follows allocation order (only overlap checks of vectorised loops ask)',
                        'an access is in bounds iff its byte range lies inside the object it points into (pointer provenance = the object the pointer was derived from)']


_TASKS = []


def by_index(run, idxs):
    ts = cases(run.tier) + vec_cases() + vecio_cases(run.tier)
    for i in idxs:
        one(run, ts[i])


if __name__ == '__main__':
    main_wrap(body, 'C16')
