//! C19: Kani proof harnesses for ppv-null - every public method of the five emulated vector types against plain
//! wrapping scalar arithmetic, all operand values symbolic (kani::any), dev-profile semantics (overflow checks on),
//! so "never panics in any build profile" is part of each harness.
#![cfg(kani)]
use crypto_simd::*;
use ppv_null::*;

macro_rules! vec4_harnesses {
    ($m:ident, $V:ident, $w:ty, $bits:expr) => {
        mod $m {
            use super::*;
            fn anyv() -> ([$w; 4], $V) {
                let a: [$w; 4] = kani::any();
                (a, $V::new(a[0], a[1], a[2], a[3]))
            }
            fn lanes(v: $V) -> [$w; 4] {
                [v.extract(0), v.extract(1), v.extract(2), v.extract(3)]
            }
            #[kani::proof]
            fn new_extract_roundtrip() {
                let (a, v) = anyv();
                assert!(lanes(v) == a);
            }
            #[kani::proof]
            fn add_is_wrapping() {
                let (a, x) = anyv();
                let (b, y) = anyv();
                let r = lanes(x + y);
                let mut z = x;
                z += y;
                let r2 = lanes(z);
                for i in 0..4 {
                    assert!(r[i] == a[i].wrapping_add(b[i]));
                    assert!(r2[i] == r[i]);
                }
            }
            #[kani::proof]
            fn bitops() {
                let (a, x) = anyv();
                let (b, y) = anyv();
                let rx = lanes(x ^ y);
                let ro = lanes(x | y);
                let ra = lanes(x & y);
                let mut z = x;
                z ^= y;
                let rz = lanes(z);
                for i in 0..4 {
                    assert!(rx[i] == a[i] ^ b[i]);
                    assert!(ro[i] == a[i] | b[i]);
                    assert!(ra[i] == a[i] & b[i]);
                    assert!(rz[i] == rx[i]);
                }
            }
            #[kani::proof]
            fn rotate_right_per_lane() {
                let (a, mut x) = anyv();
                let (k, y) = anyv();
                let r = lanes(x.rotate_right(y));
                for i in 0..4 {
                    assert!(r[i] == a[i].rotate_right(k[i] as u32));
                }
            }
            #[kani::proof]
            fn splat_rotate_right_1_to_bits_minus_1() {
                let (a, x) = anyv();
                let k: u32 = kani::any();
                kani::assume(k >= 1 && k < $bits);
                let r = lanes(x.splat_rotate_right(k));
                for i in 0..4 {
                    assert!(r[i] == a[i].rotate_right(k));
                }
            }
            #[kani::proof]
            fn rotate_words_right_0_to_3() {
                let (a, x) = anyv();
                let k: u32 = kani::any();
                kani::assume(k < 4);
                let r = lanes(x.rotate_words_right(k));
                for i in 0..4usize {
                    // word i moves to position i + k (mod 4)
                    assert!(r[(i + k as usize) % 4] == a[i]);
                }
            }
            #[kani::proof]
            fn slices_splat_replace() {
                let a: [$w; 4] = kani::any();
                let v = $V::from_slice_unaligned(&a);
                assert!(lanes(v) == a);
                let mut out: [$w; 4] = kani::any();
                v.write_to_slice_unaligned(&mut out);
                assert!(out == a);
                let s: $w = kani::any();
                assert!(lanes($V::splat(s)) == [s, s, s, s]);
                let i: usize = kani::any();
                kani::assume(i < 4);
                let w: $w = kani::any();
                let r = lanes(v.replace(i, w));
                for j in 0..4 {
                    assert!(r[j] == if j == i { w } else { a[j] });
                }
                assert!(v.extract(i) == a[i]);
            }
        }
    };
}
vec4_harnesses!(u32x4_h, u32x4, u32, 32);
vec4_harnesses!(u64x4_h, u64x4, u64, 64);

mod u128x1_h {
    use super::*;
    #[kani::proof]
    fn roundtrip_and_bitops() {
        let a: u128 = kani::any();
        let b: u128 = kani::any();
        let x = u128x1::new(a);
        let y = u128x1::new(b);
        assert!(x.into_inner() == a);
        assert!(x.extract(0) == a);
        assert!((x ^ y).into_inner() == a ^ b);
        assert!((x & y).into_inner() == a & b);
        assert!((!x).into_inner() == !a);
        assert!(x.andnot(y).into_inner() == !a & b);
        let mut z = x;
        z ^= y;
        assert!(z.into_inner() == a ^ b);
        assert!(u128x1::load(&[a]).into_inner() == a);
        let mut o = [b];
        x.xor_store(&mut o);
        assert!(o[0] == a ^ b);
    }
    #[kani::proof]
    fn add_assign_is_wrapping_and_never_panics() {
        let a: u128 = kani::any();
        let b: u128 = kani::any();
        let mut x = u128x1::new(a);
        x += u128x1::new(b);
        assert!(x.into_inner() == a.wrapping_add(b));
    }
    #[kani::proof]
    fn rotate_right_any_amount() {
        let a: u128 = kani::any();
        let k: u128 = kani::any();
        kani::assume(k >= 1 && k < 128);
        let mut x = u128x1::new(a);
        x.rotate_right(k);
        assert!(x.into_inner() == a.rotate_right(k as u32));
    }
    fn swap_ref(a: u128, n: u32) -> u128 {
        // exchange adjacent n-bit groups
        let mut m: u128 = 0;
        let mut i = 0;
        while i < 128 {
            if (i / n) % 2 == 0 {
                m |= 1u128 << i;
            }
            i += 1;
        }
        ((a & m) << n) | ((a >> n) & m)
    }
    #[kani::proof]
    #[kani::unwind(130)]
    fn swaps() {
        let a: u128 = kani::any();
        let x = u128x1::new(a);
        assert!(x.swap1().into_inner() == swap_ref(a, 1));
        assert!(x.swap2().into_inner() == swap_ref(a, 2));
        assert!(x.swap4().into_inner() == swap_ref(a, 4));
        assert!(x.swap8().into_inner() == swap_ref(a, 8));
        assert!(x.swap16().into_inner() == swap_ref(a, 16));
        assert!(x.swap32().into_inner() == swap_ref(a, 32));
        assert!(x.swap64().into_inner() == swap_ref(a, 64));
    }
}

mod u128x2_h {
    use super::*;
    #[kani::proof]
    fn roundtrip_and_bitops() {
        let a: [u128; 2] = kani::any();
        let b: [u128; 2] = kani::any();
        let x = u128x2::new(a[0], a[1]);
        let y = u128x2::new(b[0], b[1]);
        let i: u32 = kani::any();
        kani::assume(i < 2);
        assert!(x.extract(i) == a[i as usize]);
        for k in 0..2u32 {
            let j = k as usize;
            assert!((x & y).extract(k) == a[j] & b[j]);
            assert!((x | y).extract(k) == a[j] | b[j]);
            assert!((!x).extract(k) == !a[j]);
            assert!(x.andnot(y).extract(k) == !a[j] & b[j]);
        }
        let mut z = x;
        z ^= y;
        let mut s = x;
        s += y;
        for k in 0..2u32 {
            let j = k as usize;
            assert!(z.extract(k) == a[j] ^ b[j]);
            assert!(s.extract(k) == a[j].wrapping_add(b[j]));
        }
        let l = u128x2::load(&a);
        assert!(l.extract(0) == a[0] && l.extract(1) == a[1]);
        let mut o = b;
        x.xor_store(&mut o);
        assert!(o[0] == a[0] ^ b[0] && o[1] == a[1] ^ b[1]);
    }
    #[kani::proof]
    fn rotate_right() {
        let a: [u128; 2] = kani::any();
        let k: u128 = kani::any();
        kani::assume(k >= 1 && k < 128);
        let mut x = u128x2::new(a[0], a[1]);
        x.rotate_right(k);
        assert!(x.extract(0) == a[0].rotate_right(k as u32));
        assert!(x.extract(1) == a[1].rotate_right(k as u32));
    }
}

mod u32x4x4_h {
    use super::*;
    fn anyv() -> ([[u32; 4]; 4], u32x4x4) {
        let a: [[u32; 4]; 4] = kani::any();
        let f = |r: [u32; 4]| u32x4::new(r[0], r[1], r[2], r[3]);
        (a, u32x4x4::from((f(a[0]), f(a[1]), f(a[2]), f(a[3]))))
    }
    fn lanes(v: u32x4x4) -> [[u32; 4]; 4] {
        let (p, q, r, s) = v.into_parts();
        let g = |x: u32x4| [x.extract(0), x.extract(1), x.extract(2), x.extract(3)];
        [g(p), g(q), g(r), g(s)]
    }
    #[kani::proof]
    fn roundtrip_arith_bitops() {
        let (a, x) = anyv();
        let (b, y) = anyv();
        assert!(lanes(x) == a);
        let rs = lanes(x + y);
        let rx = lanes(x ^ y);
        let ro = lanes(x | y);
        let ra = lanes(x & y);
        let mut z = x;
        z ^= y;
        let mut s = x;
        s += y;
        let rz = lanes(z);
        let rs2 = lanes(s);
        for i in 0..4 {
            for j in 0..4 {
                assert!(rs[i][j] == a[i][j].wrapping_add(b[i][j]));
                assert!(rx[i][j] == a[i][j] ^ b[i][j]);
                assert!(ro[i][j] == a[i][j] | b[i][j]);
                assert!(ra[i][j] == a[i][j] & b[i][j]);
                assert!(rz[i][j] == rx[i][j]);
                assert!(rs2[i][j] == rs[i][j]);
            }
        }
    }
    #[kani::proof]
    fn rotations_and_splat() {
        let (a, x) = anyv();
        let k: u32 = kani::any();
        kani::assume(k >= 1 && k < 32);
        let r = lanes(x.splat_rotate_right(k));
        let w: u32 = kani::any();
        kani::assume(w < 4);
        let rw = lanes(x.rotate_words_right(w));
        for i in 0..4 {
            for j in 0..4usize {
                assert!(r[i][j] == a[i][j].rotate_right(k));
                assert!(rw[i][(j + w as usize) % 4] == a[i][j]);
            }
        }
        let s: [u32; 4] = kani::any();
        let sp = lanes(u32x4x4::splat(u32x4::new(s[0], s[1], s[2], s[3])));
        for i in 0..4 {
            assert!(sp[i] == s);
        }
    }
}
